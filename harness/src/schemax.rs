//! Schema-level drivers: C19 (Schema::parse under catch_unwind), C20 (introspection through SchemaAdapter),
//! C25 (check_adapter_invariants against fault-injected adapters).
use std::{collections::BTreeMap, panic::{self, AssertUnwindSafe}, sync::Arc};

use serde_json::{json, Value};
use trustfall_core::{frontend::parse, interpreter::execution::interpret_ir, ir::FieldValue, schema::{Schema, SchemaAdapter}};

use crate::val::{from_fv, panic_msg};

fn variants(dbg: &str) -> Vec<String> {
    // variant names of InvalidSchemaError as they appear in its Debug form
    let mut out = vec![];
    let names = ["SchemaParseError", "InvalidTypeWideningOfInheritedField", "InvalidTypeNarrowingOfInheritedFieldParameter", "InheritedFieldMissingParameters",
        "InheritedFieldUnexpectedParameters", "InvalidDefaultValueForFieldParameter", "CircularImplementsRelationships", "MissingTransitiveInterfaceImplementation",
        "MissingRequiredField", "AmbiguousFieldOrigin", "PropertyFieldWithParameters", "InvalidEdgeType", "UnknownPropertyOrEdgeType", "PropertyFieldOnRootQueryType",
        "EdgePointsToRootQueryType", "ReservedFieldName", "ReservedTypeName", "ImplementingNonExistentType", "ImplementingNonInterface", "DuplicateFieldDefinition",
        "DuplicateTypeOrInterfaceDefinition"];
    for n in names { if dbg.contains(&format!("{n}(")) { out.push(n.to_string()); } }
    out
}

pub fn schema_check(x: &Value) -> Value {
    let sdl = x["sdl"].as_str().unwrap().to_string();
    match panic::catch_unwind(|| Schema::parse(&sdl)) {
        Ok(Ok(_)) => json!({"id": x["id"], "outcome": "ok", "variants": [], "text": ""}),
        Ok(Err(e)) => { let d = format!("{e:?}"); json!({"id": x["id"], "outcome": "err", "variants": variants(&d), "text": e.to_string().chars().take(400).collect::<String>()}) }
        Err(p) => json!({"id": x["id"], "outcome": "panic", "variants": [], "text": panic_msg(p)}),
    }
}

/// Runs one introspection query over the SchemaAdapter of the given schema; rows as [[name, value]...].
pub fn introspect(x: &Value) -> Value {
    let sdl = x["sdl"].as_str().unwrap().to_string();
    let queries: Vec<(String, String)> = x["queries"].as_array().unwrap().iter().map(|q| (q[0].as_str().unwrap().to_string(), q[1].as_str().unwrap().to_string())).collect();
    let r = panic::catch_unwind(AssertUnwindSafe(move || {
        let target = Schema::parse(&sdl).map_err(|e| format!("target schema: {e}"))?;
        let meta = SchemaAdapter::schema_text();
        let meta_schema = Schema::parse(meta).map_err(|e| format!("meta schema: {e}"))?;
        let mut out = serde_json::Map::new();
        for (name, q) in queries {
            let iq = parse(&meta_schema, &q).map_err(|e| format!("query {name}: {e}"))?;
            let adapter = Arc::new(SchemaAdapter::new(&target));
            let rows: Vec<BTreeMap<Arc<str>, FieldValue>> = interpret_ir(adapter, iq, Arc::new(BTreeMap::new())).map_err(|e| format!("{e:?}"))?.collect();
            out.insert(name, Value::Array(rows.iter().map(|r| Value::Array(r.iter().map(|(k, v)| json!([k.as_ref(), from_fv(v)])).collect())).collect()));
        }
        Ok::<Value, String>(Value::Object(out))
    }));
    match r {
        Ok(Ok(v)) => json!({"id": x["id"], "t": "ok", "res": v}),
        Ok(Err(e)) => json!({"id": x["id"], "t": "err", "err": e}),
        Err(p) => json!({"id": x["id"], "t": "panic", "err": panic_msg(p)}),
    }
}

/// The introspection adapter itself under the repository's adapter invariant checker.
pub fn introspect_invariants(x: &Value) -> Value {
    let sdl = x["sdl"].as_str().unwrap().to_string();
    let r = panic::catch_unwind(AssertUnwindSafe(move || {
        let target = Schema::parse(&sdl).map_err(|e| format!("target schema: {e}"))?;
        let meta_schema = Schema::parse(SchemaAdapter::schema_text()).map_err(|e| format!("meta schema: {e}"))?;
        trustfall_core::interpreter::helpers::check_adapter_invariants(&meta_schema, SchemaAdapter::new(&target));
        Ok::<(), String>(())
    }));
    match r {
        Ok(Ok(())) => json!({"id": x["id"], "t": "ok"}),
        Ok(Err(e)) => json!({"id": x["id"], "t": "err", "err": e}),
        Err(p) => json!({"id": x["id"], "t": "panic", "err": panic_msg(p)}),
    }
}

// ------------------------------------------------------------------------------------------------
// C25: a schema-generic adapter that honours the contract for contexts without an active vertex,
// except for one injected fault at one site.
// ------------------------------------------------------------------------------------------------
use trustfall_core::interpreter::{Adapter, AsVertex, ContextIterator, ContextOutcomeIterator, DataContext, ResolveEdgeInfo, ResolveInfo, VertexIterator};
use trustfall_core::ir::EdgeParameters;

#[derive(Clone, Debug, Default)]
pub struct Fault { pub kind: String, pub ty: String, pub field: String, pub mode: String }
#[derive(Clone)]
pub struct FaultyAdapter { pub fault: Option<Fault> }
impl FaultyAdapter {
    fn hit(&self, kind: &str, ty: &str, field: &str) -> Option<String> {
        self.fault.as_ref().filter(|f| f.kind == kind && f.ty == ty && f.field == field).map(|f| f.mode.clone())
    }
}
fn disturb<'a, X: 'a>(mode: &str, items: Vec<X>) -> Vec<X> where X: Clone {
    let mut v = items;
    match mode {
        "reorder" => { if v.len() >= 2 { let n = v.len(); v.swap(n - 2, n - 1); } v }
        "reverse" => { v.reverse(); v }
        "drop" => { if v.len() >= 3 { v.remove(2); } v }
        "dup" => { if let Some(x) = v.first().cloned() { v.insert(0, x); } v }
        _ => v,
    }
}
impl<'a> Adapter<'a> for FaultyAdapter {
    type Vertex = u32;
    fn resolve_starting_vertices(&self, _e: &Arc<str>, _p: &EdgeParameters, _ri: &ResolveInfo) -> VertexIterator<'a, u32> { Box::new(std::iter::empty()) }
    fn resolve_property<X: AsVertex<u32> + 'a>(&self, c: ContextIterator<'a, X>, t: &Arc<str>, p: &Arc<str>, _ri: &ResolveInfo) -> ContextOutcomeIterator<'a, X, FieldValue> {
        let mode = self.hit("prop", t, p);
        let ctxs: Vec<DataContext<X>> = c.collect();
        let ctxs = match &mode { Some(m) => disturb(m, ctxs), None => ctxs };
        let wrong = mode.as_deref() == Some("wrong");
        Box::new(ctxs.into_iter().enumerate().map(move |(i, ctx)| (ctx, if wrong && i == 3 { FieldValue::Int64(1) } else { FieldValue::Null })))
    }
    fn resolve_neighbors<X: AsVertex<u32> + 'a>(&self, c: ContextIterator<'a, X>, t: &Arc<str>, e: &Arc<str>, _p: &EdgeParameters, _ri: &ResolveEdgeInfo) -> ContextOutcomeIterator<'a, X, VertexIterator<'a, u32>> {
        let mode = self.hit("nbrs", t, e);
        let ctxs: Vec<DataContext<X>> = c.collect();
        let ctxs = match &mode { Some(m) => disturb(m, ctxs), None => ctxs };
        let wrong = mode.as_deref() == Some("wrong");
        Box::new(ctxs.into_iter().enumerate().map(move |(i, ctx)| {
            let it: VertexIterator<'a, u32> = if wrong && i == 3 { Box::new(std::iter::once(7u32)) } else { Box::new(std::iter::empty()) };
            (ctx, it)
        }))
    }
    fn resolve_coercion<X: AsVertex<u32> + 'a>(&self, c: ContextIterator<'a, X>, t: &Arc<str>, to: &Arc<str>, _ri: &ResolveInfo) -> ContextOutcomeIterator<'a, X, bool> {
        let mode = self.hit("coerce", t, to);
        let ctxs: Vec<DataContext<X>> = c.collect();
        let ctxs = match &mode { Some(m) => disturb(m, ctxs), None => ctxs };
        let wrong = mode.as_deref() == Some("wrong");
        Box::new(ctxs.into_iter().enumerate().map(move |(i, ctx)| (ctx, wrong && i == 3)))
    }
}

/// {id, sdl, faults: [{kind, ty, field, mode}]} -> {id, t, results: [{panicked, msg}], clean: {panicked, msg}}
pub fn checker_faults(x: &Value) -> Value {
    let sdl = x["sdl"].as_str().unwrap().to_string();
    let schema = match panic::catch_unwind(|| Schema::parse(&sdl)) { Ok(Ok(s)) => s, _ => return json!({"id": x["id"], "t": "badschema"}) };
    let run = |fault: Option<Fault>| -> Value {
        let s2 = schema.clone();
        let r = panic::catch_unwind(AssertUnwindSafe(move || trustfall_core::interpreter::helpers::check_adapter_invariants(&s2, FaultyAdapter { fault })));
        match r { Ok(()) => json!({"panicked": false, "msg": ""}), Err(p) => json!({"panicked": true, "msg": panic_msg(p).chars().take(200).collect::<String>()}) }
    };
    let clean = run(None);
    let results: Vec<Value> = x["faults"].as_array().unwrap().iter().map(|f| run(Some(Fault {
        kind: f["kind"].as_str().unwrap().into(), ty: f["ty"].as_str().unwrap().into(), field: f["field"].as_str().unwrap().into(), mode: f["mode"].as_str().unwrap().into() }))).collect();
    json!({"id": x["id"], "t": "ok", "clean": clean, "results": results})
}

/// C26: run the stub generator on a schema into <dir>/src (under catch_unwind).
pub fn stubgen(x: &Value) -> Value {
    let sdl = x["sdl"].as_str().unwrap().to_string();
    let dir = std::path::PathBuf::from(x["dir"].as_str().unwrap());
    let src = dir.join("src");
    let _ = std::fs::remove_dir_all(&dir);
    std::fs::create_dir_all(&src).unwrap();
    let r = panic::catch_unwind(AssertUnwindSafe(|| trustfall_stubgen::generate_rust_stub(&sdl, &src)));
    match r {
        Ok(Ok(())) => json!({"id": x["id"], "t": "generated"}),
        Ok(Err(e)) => json!({"id": x["id"], "t": "err", "err": format!("{e:?}").chars().take(400).collect::<String>()}),
        Err(p) => json!({"id": x["id"], "t": "panic", "err": panic_msg(p).chars().take(400).collect::<String>()}),
    }
}
