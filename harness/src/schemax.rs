//! Schema-level drivers: C19 (Schema::parse under catch_unwind), C20 (introspection through SchemaAdapter),
//! C25 (check_adapter_invariants against fault-injected adapters).
use std::{collections::BTreeMap, panic::{self, AssertUnwindSafe}, sync::Arc};

use serde_json::{json, Value};
use trustfall_core::{frontend::parse, interpreter::execution::interpret_ir, ir::FieldValue, schema::{Schema, SchemaAdapter}};

use crate::val::{from_fv, panic_msg};

fn variants(dbg: &str) -> Vec<String> {
    // variant names of InvalidSchemaError as they appear in its Debug form
    let mut out = vec![];
    let names = ["SchemaParseError", "InvalidTypeWideningOfInheritedField", "InvalidTypeNarrowingOfInheritedFieldParameter", "InheritedFieldMissingParameters",
        "InheritedFieldUnexpectedParameters", "InvalidDefaultValueForFieldParameter", "CircularImplementsRelationships", "MissingTransitiveInterfaceImplementation",
        "MissingRequiredField", "AmbiguousFieldOrigin", "PropertyFieldWithParameters", "InvalidEdgeType", "UnknownPropertyOrEdgeType", "PropertyFieldOnRootQueryType",
        "EdgePointsToRootQueryType", "ReservedFieldName", "ReservedTypeName", "ImplementingNonExistentType", "ImplementingNonInterface", "DuplicateFieldDefinition",
        "DuplicateTypeOrInterfaceDefinition"];
    for n in names { if dbg.contains(&format!("{n}(")) { out.push(n.to_string()); } }
    out
}

pub fn schema_check(x: &Value) -> Value {
    let sdl = x["sdl"].as_str().unwrap().to_string();
    match panic::catch_unwind(|| Schema::parse(&sdl)) {
        Ok(Ok(_)) => json!({"id": x["id"], "outcome": "ok", "variants": [], "text": ""}),
        Ok(Err(e)) => { let d = format!("{e:?}"); json!({"id": x["id"], "outcome": "err", "variants": variants(&d), "text": e.to_string().chars().take(400).collect::<String>()}) }
        Err(p) => json!({"id": x["id"], "outcome": "panic", "variants": [], "text": panic_msg(p)}),
    }
}

/// Runs one introspection query over the SchemaAdapter of the given schema; rows as [[name, value]...].
pub fn introspect(x: &Value) -> Value {
    let sdl = x["sdl"].as_str().unwrap().to_string();
    let queries: Vec<(String, String)> = x["queries"].as_array().unwrap().iter().map(|q| (q[0].as_str().unwrap().to_string(), q[1].as_str().unwrap().to_string())).collect();
    let r = panic::catch_unwind(AssertUnwindSafe(move || {
        let target = Schema::parse(&sdl).map_err(|e| format!("target schema: {e}"))?;
        let meta = SchemaAdapter::schema_text();
        let meta_schema = Schema::parse(meta).map_err(|e| format!("meta schema: {e}"))?;
        let mut out = serde_json::Map::new();
        for (name, q) in queries {
            let iq = parse(&meta_schema, &q).map_err(|e| format!("query {name}: {e}"))?;
            let adapter = Arc::new(SchemaAdapter::new(&target));
            let rows: Vec<BTreeMap<Arc<str>, FieldValue>> = interpret_ir(adapter, iq, Arc::new(BTreeMap::new())).map_err(|e| format!("{e:?}"))?.collect();
            out.insert(name, Value::Array(rows.iter().map(|r| Value::Array(r.iter().map(|(k, v)| json!([k.as_ref(), from_fv(v)])).collect())).collect()));
        }
        Ok::<Value, String>(Value::Object(out))
    }));
    match r {
        Ok(Ok(v)) => json!({"id": x["id"], "t": "ok", "res": v}),
        Ok(Err(e)) => json!({"id": x["id"], "t": "err", "err": e}),
        Err(p) => json!({"id": x["id"], "t": "panic", "err": panic_msg(p)}),
    }
}

/// The introspection adapter itself under the repository's adapter invariant checker.
pub fn introspect_invariants(x: &Value) -> Value {
    let sdl = x["sdl"].as_str().unwrap().to_string();
    let r = panic::catch_unwind(AssertUnwindSafe(move || {
        let target = Schema::parse(&sdl).map_err(|e| format!("target schema: {e}"))?;
        let meta_schema = Schema::parse(SchemaAdapter::schema_text()).map_err(|e| format!("meta schema: {e}"))?;
        trustfall_core::interpreter::helpers::check_adapter_invariants(&meta_schema, SchemaAdapter::new(&target));
        Ok::<(), String>(())
    }));
    match r {
        Ok(Ok(())) => json!({"id": x["id"], "t": "ok"}),
        Ok(Err(e)) => json!({"id": x["id"], "t": "err", "err": e}),
        Err(p) => json!({"id": x["id"], "t": "panic", "err": panic_msg(p)}),
    }
}
