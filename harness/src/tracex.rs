//! Trace export (AdapterTap -> NDJSON events); filled in with the trace-validation milestone.
