//! Binding B: export of an `AdapterTap` trace as NDJSON-ready events in the vocabulary of spec/Interp.tla.
//! The adapter is Tap(Batching(GraphAdapter)); `Request` markers are interleaved before each `next()` on the
//! result iterator; operation ids are replaced by call ordinals / outer-neighbour-yield ordinals.
use std::{cell::RefCell, collections::BTreeMap, panic::{self, AssertUnwindSafe}, rc::Rc, sync::Arc};

use serde_json::{json, Value};
use trustfall_core::{
    interpreter::{execution::interpret_ir, trace::{tap_results, AdapterTap, FunctionCall, Opid, Trace, TraceOpContent, YieldValue}},
    ir::{FieldValue, IndexedQuery},
};

use crate::{graph::{GA, V}, irx::tagged, tovalue::to_value, val::{from_fv, idn, panic_msg, row_json}, wrappers::{Batching, Policy, Row}};

fn vnum(v: &Value) -> Value { if v.is_null() { json!(0) } else { v.clone() } }
fn pairs(v: Option<&Value>) -> Vec<Value> { v.and_then(|m| m.get("$map")).and_then(|a| a.as_array()).cloned().unwrap_or_default() }

fn value_or_vec(v: &Value) -> Value {
    if v.is_null() { return json!({"k":"null"}); }
    if let Some(x) = v.get("Value") { return tagged(x); }
    if let Some(l) = v.get("Vec") { return json!({"k":"list","v": l.as_array().unwrap().iter().map(value_or_vec).collect::<Vec<_>>()}); }
    json!({"k":"other","v": v.to_string()})
}

fn refkey(r: &Value) -> Value {
    if let Some(c) = r.get("ContextField") { json!(["tag", c["vertex_id"], c["field_name"], 0]) }
    else if let Some(f) = r.get("FoldSpecificField") { json!(["cnt", 0, "", f["fold_eid"]]) }
    else { json!(["?", 0, r.to_string(), 0]) }
}

/// What the trace specification compares of a DataContext.
pub fn ctx_json<T: serde::Serialize>(ctx: &T) -> Value {
    let c = to_value(ctx);
    let verts: Vec<Value> = pairs(c.get("vertices")).iter().map(|p| json!([p[0], vnum(&p[1])])).collect();
    let values: Vec<Value> = c.get("values").and_then(|v| v.as_array()).map(|a| a.iter().map(tagged).collect()).unwrap_or_default();
    let susp: Vec<Value> = c.get("suspended_vertices").and_then(|v| v.as_array()).map(|a| a.iter().map(vnum).collect()).unwrap_or_default();
    let tags: Vec<Value> = pairs(c.get("imported_tags")).iter().map(|p| {
        let tv = if p[1].is_string() { json!({"ex": false, "v": {"k":"null"}}) } else { json!({"ex": true, "v": tagged(&p[1]["Some"])}) };
        json!([refkey(&p[0]), tv])
    }).collect();
    let folded: Vec<Value> = pairs(c.get("folded_contexts")).iter().map(|p| json!([p[0], if p[1].is_null() { json!(-1) } else { json!(p[1].as_array().map(|a| a.len()).unwrap_or(0)) }])).collect();
    let fvals: Vec<Value> = pairs(c.get("folded_values")).iter().map(|p| json!([p[0], value_or_vec(&p[1])])).collect();
    let piggy = c.get("piggyback").and_then(|v| v.as_array()).map(|a| a.len()).unwrap_or(0);
    json!({"active": vnum(&c["active_vertex"]), "verts": verts, "values": values, "susp": susp, "tags": tags, "folded": folded, "fvals": fvals, "piggy": piggy})
}

fn ev(e: &str) -> Value {
    json!({"e": e, "call": 0, "fn": "", "vid": 0, "ty": "", "field": "", "eid": 0, "ctx": {"active": 0}, "v": {"t":"none"}, "pos": 0, "ny": 0})
}

/// Runs the query through Tap(Batching(GA, policy)) taking at most `max_rows` rows, and returns
/// {"t":"ok","events":[...],"rows":[...],"ncalls":n} (or {"t":"panic",..}).
pub fn trace_run(ga: &GA, iq: &Arc<IndexedQuery>, args: &Arc<BTreeMap<Arc<str>, FieldValue>>, policy: &Policy, default: (bool, usize), max_rows: usize) -> Value {
    let ga = ga.clone(); let iq = iq.clone(); let args = args.clone(); let policy = policy.clone();
    let r = panic::catch_unwind(AssertUnwindSafe(move || {
        let targs: BTreeMap<String, FieldValue> = args.iter().map(|(k, v)| (k.to_string(), v.clone())).collect();
        let tracer = Rc::new(RefCell::new(Trace::<V>::new(iq.ir_query.clone(), targs)));
        let b = Batching::new(ga, &policy, default);
        #[allow(clippy::arc_with_non_send_sync)]
        let tap = Arc::new(AdapterTap::new(b, tracer.clone()));
        let mut it = tap_results(tap.clone(), interpret_ir(tap.clone(), iq.clone(), args.clone()).unwrap());
        let mut marks: Vec<usize> = vec![]; let mut rows: Vec<Row> = vec![];
        loop {
            if rows.len() >= max_rows { break; }
            marks.push(tracer.borrow().ops.len());
            match it.next() { Some(r) => rows.push(r), None => break }
        }
        drop(it);
        let trace = tracer.borrow();
        let mut events: Vec<Value> = vec![];
        let mut call_ord: BTreeMap<Opid, usize> = BTreeMap::new();
        let mut outer_ord: BTreeMap<Opid, usize> = BTreeMap::new();
        let mut mi = 0usize;
        for (idx, (opid, op)) in trace.ops.iter().enumerate() {
            while mi < marks.len() && marks[mi] == idx { events.push(ev("Request")); mi += 1; }
            let parent_call = op.parent_opid.and_then(|p| call_ord.get(&p).cloned()).unwrap_or(0);
            let parent_outer = op.parent_opid.and_then(|p| outer_ord.get(&p).cloned()).unwrap_or(0);
            let mut e;
            match &op.content {
                TraceOpContent::Call(fc) => {
                    let n = call_ord.len() + 1; call_ord.insert(*opid, n);
                    e = ev("Call"); e["call"] = json!(n);
                    match fc {
                        FunctionCall::ResolveStartingVertices(vid) => { e["fn"] = json!("start"); e["vid"] = json!(idn(vid)); }
                        FunctionCall::ResolveProperty(vid, ty, p) => { e["fn"] = json!("prop"); e["vid"] = json!(idn(vid)); e["ty"] = json!(ty.as_ref()); e["field"] = json!(p.as_ref()); }
                        FunctionCall::ResolveNeighbors(vid, ty, eid) => { e["fn"] = json!("nbrs"); e["vid"] = json!(idn(vid)); e["ty"] = json!(ty.as_ref()); e["eid"] = json!(idn(eid)); }
                        FunctionCall::ResolveCoercion(vid, ty, to) => { e["fn"] = json!("coerce"); e["vid"] = json!(idn(vid)); e["ty"] = json!(ty.as_ref()); e["field"] = json!(to.as_ref()); }
                    }
                }
                TraceOpContent::AdvanceInputIterator => { e = ev("Advance"); e["call"] = json!(parent_call); }
                TraceOpContent::YieldInto(ctx) => { e = ev("YieldInto"); e["call"] = json!(parent_call); e["ctx"] = ctx_json(ctx); }
                TraceOpContent::InputIteratorExhausted => { e = ev("InExh"); e["call"] = json!(parent_call); }
                TraceOpContent::OutputIteratorExhausted => {
                    if parent_outer > 0 { e = ev("NbrExh"); e["ny"] = json!(parent_outer); } else { e = ev("OutExh"); e["call"] = json!(parent_call); }
                }
                TraceOpContent::YieldFrom(y) => match y {
                    YieldValue::ResolveStartingVertices(v) => { e = ev("YieldFrom"); e["call"] = json!(parent_call); e["fn"] = json!("start"); e["v"] = json!({"t":"val","v": from_fv(&FieldValue::Int64(v.0 as i64))}); }
                    YieldValue::ResolveProperty(ctx, val) => { e = ev("YieldFrom"); e["call"] = json!(parent_call); e["fn"] = json!("prop"); e["ctx"] = ctx_json(ctx); e["v"] = json!({"t":"val","v": from_fv(val)}); }
                    YieldValue::ResolveCoercion(ctx, b) => { e = ev("YieldFrom"); e["call"] = json!(parent_call); e["fn"] = json!("coerce"); e["ctx"] = ctx_json(ctx); e["v"] = json!({"t":"bool","b": b}); }
                    YieldValue::ResolveNeighborsOuter(ctx) => {
                        let n = outer_ord.len() + 1; outer_ord.insert(*opid, n);
                        e = ev("YieldFrom"); e["call"] = json!(parent_call); e["fn"] = json!("nbrs"); e["ctx"] = ctx_json(ctx); e["ny"] = json!(n);
                    }
                    YieldValue::ResolveNeighborsInner(pos, v) => { e = ev("NbrInner"); e["ny"] = json!(parent_outer); e["pos"] = json!(pos); e["v"] = json!({"t":"val","v": from_fv(&FieldValue::Int64(v.0 as i64))}); }
                },
                TraceOpContent::ProduceQueryResult(row) => { e = ev("Row"); e["ctx"] = row_json(row); }
            }
            events.push(e);
        }
        while mi < marks.len() { events.push(ev("Request")); mi += 1; }
        json!({"t":"ok","events": events, "rows": rows.iter().map(row_json).collect::<Vec<_>>(), "ncalls": call_ord.len()})
    }));
    r.unwrap_or_else(|p| json!({"t":"panic","err": panic_msg(p)}))
}

// ------------------------------------------------------------------------------------------------
// The repository's own recorded traces (trustfall_core/test_data/tests/valid_queries/*.trace.ron, numbers adapter):
// exported for validation WITHOUT a data source. Vertices become small integers (in order of first appearance); every
// YieldInto event carries the outcome the recorded adapter produced for that context; the start vertices are listed.
// ------------------------------------------------------------------------------------------------
use trustfall_core::{numbers_interpreter::NumbersVertex, test_types::TestInterpreterOutputTrace};

struct Interner { ids: BTreeMap<String, u64> }
impl Interner {
    fn id<T: serde::Serialize>(&mut self, v: &T) -> u64 { let k = to_value(v).to_string(); let n = self.ids.len() as u64 + 1; *self.ids.entry(k).or_insert(n) }
}
/// replaces every vertex inside a serialized DataContext by its interned id
fn ctx_json_interned(ctx: &trustfall_core::interpreter::DataContext<NumbersVertex>, it: &mut Interner) -> Value {
    let mapped = ctx.clone().map(&mut |v| crate::graph::V(it.id(&v) as u32));
    ctx_json(&mapped)
}

pub fn corpus_trace(path: &str) -> Value {
    let text = match std::fs::read_to_string(path) { Ok(t) => t, Err(e) => return json!({"t":"ioerr","err": e.to_string()}) };
    let r = panic::catch_unwind(AssertUnwindSafe(move || {
        let t: TestInterpreterOutputTrace<NumbersVertex> = ron::from_str(&text).map_err(|e| format!("ron: {e}"))?;
        let trace = t.trace;
        let iq = IndexedQuery::try_from(trace.ir_query.clone()).map_err(|e| format!("index: {e:?}"))?;
        let mut it = Interner { ids: BTreeMap::new() };
        let mut events: Vec<Value> = vec![];
        let mut call_ord: BTreeMap<Opid, usize> = BTreeMap::new();
        let mut call_fn: BTreeMap<usize, String> = BTreeMap::new();
        let mut outer_ord: BTreeMap<Opid, usize> = BTreeMap::new();
        let mut starts: Vec<u64> = vec![];
        // per call: indices (into `events`) of YieldInto events still waiting for their outcome (order-preserving adapters: FIFO)
        let mut pending: BTreeMap<usize, std::collections::VecDeque<usize>> = BTreeMap::new();
        let mut outer_event: BTreeMap<usize, usize> = BTreeMap::new();   // ny -> index of the YieldInto event whose outcome is that neighbour list
        for (opid, op) in trace.ops.iter() {
            let parent_call = op.parent_opid.and_then(|p| call_ord.get(&p).cloned()).unwrap_or(0);
            let parent_outer = op.parent_opid.and_then(|p| outer_ord.get(&p).cloned()).unwrap_or(0);
            let mut e;
            match &op.content {
                TraceOpContent::Call(fc) => {
                    let n = call_ord.len() + 1; call_ord.insert(*opid, n);
                    e = ev("Call"); e["call"] = json!(n);
                    match fc {
                        FunctionCall::ResolveStartingVertices(vid) => { e["fn"] = json!("start"); e["vid"] = json!(idn(vid)); }
                        FunctionCall::ResolveProperty(vid, ty, p) => { e["fn"] = json!("prop"); e["vid"] = json!(idn(vid)); e["ty"] = json!(ty.as_ref()); e["field"] = json!(p.as_ref()); }
                        FunctionCall::ResolveNeighbors(vid, ty, eid) => { e["fn"] = json!("nbrs"); e["vid"] = json!(idn(vid)); e["ty"] = json!(ty.as_ref()); e["eid"] = json!(idn(eid)); }
                        FunctionCall::ResolveCoercion(vid, ty, to) => { e["fn"] = json!("coerce"); e["vid"] = json!(idn(vid)); e["ty"] = json!(ty.as_ref()); e["field"] = json!(to.as_ref()); }
                    }
                    call_fn.insert(n, e["fn"].as_str().unwrap().to_string());
                }
                TraceOpContent::AdvanceInputIterator => { e = ev("Advance"); e["call"] = json!(parent_call); }
                TraceOpContent::YieldInto(ctx) => {
                    e = ev("YieldInto"); e["call"] = json!(parent_call); e["ctx"] = ctx_json_interned(ctx, &mut it);
                    e["out"] = json!({"t":"none"});
                    pending.entry(parent_call).or_default().push_back(events.len());
                }
                TraceOpContent::InputIteratorExhausted => { e = ev("InExh"); e["call"] = json!(parent_call); }
                TraceOpContent::OutputIteratorExhausted => { if parent_outer > 0 { e = ev("NbrExh"); e["ny"] = json!(parent_outer); } else { e = ev("OutExh"); e["call"] = json!(parent_call); } }
                TraceOpContent::YieldFrom(y) => match y {
                    YieldValue::ResolveStartingVertices(v) => { let id = it.id(v); starts.push(id); e = ev("YieldFrom"); e["call"] = json!(parent_call); e["fn"] = json!("start"); e["v"] = json!({"t":"val","v": from_fv(&FieldValue::Int64(id as i64))}); }
                    YieldValue::ResolveProperty(ctx, val) => {
                        e = ev("YieldFrom"); e["call"] = json!(parent_call); e["fn"] = json!("prop"); e["ctx"] = ctx_json_interned(ctx, &mut it); e["v"] = json!({"t":"val","v": from_fv(val)});
                        if let Some(k) = pending.entry(parent_call).or_default().pop_front() { events[k]["out"] = e["v"].clone(); }
                    }
                    YieldValue::ResolveCoercion(ctx, b) => {
                        e = ev("YieldFrom"); e["call"] = json!(parent_call); e["fn"] = json!("coerce"); e["ctx"] = ctx_json_interned(ctx, &mut it); e["v"] = json!({"t":"bool","b": b});
                        if let Some(k) = pending.entry(parent_call).or_default().pop_front() { events[k]["out"] = e["v"].clone(); }
                    }
                    YieldValue::ResolveNeighborsOuter(ctx) => {
                        let n = outer_ord.len() + 1; outer_ord.insert(*opid, n);
                        e = ev("YieldFrom"); e["call"] = json!(parent_call); e["fn"] = json!("nbrs"); e["ctx"] = ctx_json_interned(ctx, &mut it); e["ny"] = json!(n);
                        if let Some(k) = pending.entry(parent_call).or_default().pop_front() { events[k]["out"] = json!({"t":"nbrs","ids": [], "ny": 0}); outer_event.insert(n, k); }
                    }
                    YieldValue::ResolveNeighborsInner(pos, v) => {
                        let id = it.id(v);
                        e = ev("NbrInner"); e["ny"] = json!(parent_outer); e["pos"] = json!(pos); e["v"] = json!({"t":"val","v": from_fv(&FieldValue::Int64(id as i64))});
                        if let Some(k) = outer_event.get(&parent_outer) { events[*k]["out"]["ids"].as_array_mut().unwrap().push(json!(id)); }
                    }
                },
                TraceOpContent::ProduceQueryResult(row) => { e = ev("Row"); e["ctx"] = row_json(row); }
            }
            events.push(e);
        }
        let args: Value = Value::Object(trace.arguments.iter().map(|(k, v)| (k.clone(), from_fv(v))).collect());
        Ok::<Value, String>(json!({"t":"ok","ir": crate::irx::ir_json(&iq), "events": events, "starts": starts, "args": args, "vertices": it.ids.len()}))
    }));
    match r { Ok(Ok(v)) => v, Ok(Err(e)) => json!({"t":"err","err": e}), Err(p) => json!({"t":"panic","err": panic_msg(p)}) }
}
