//! Export of the compiled query (IR skeleton, declared outputs, variables) as TLC-readable JSON.
use serde_json::{json, Value};
use trustfall_core::ir::{IndexedQuery, Type};

/// serde form of a FieldValue (`{"Int64":3}` / `"Null"`) -> tagged record of val.rs
pub fn tagged(v: &Value) -> Value {
    use crate::val::{chars, limbs};
    if v.is_string() { return json!({"k":"null"}); }
    let (k, x) = v.as_object().unwrap().iter().next().unwrap();
    match k.as_str() {
        "Int64" => json!({"k":"int","r":"i","v": limbs(x.as_i64().unwrap() as i128)}),
        "Uint64" => json!({"k":"int","r":"u","v": limbs(x.as_u64().unwrap() as i128)}),
        "Float64" => json!({"k":"float","v": (x.as_f64().unwrap() * 2.0) as i64}),
        "String" => json!({"k":"str","v": chars(x.as_str().unwrap())}),
        "Enum" => json!({"k":"enum","v": chars(x.as_str().unwrap())}),
        "Boolean" => json!({"k":"bool","v": x}),
        "List" => json!({"k":"list","v": x.as_array().unwrap().iter().map(tagged).collect::<Vec<_>>()}),
        o => json!({"k": o}),
    }
}

pub fn type_json(t: &Type) -> Value {
    // mods: nullability flags from the outermost level to the leaf
    let mut mods = vec![];
    let mut cur = t.clone();
    loop {
        mods.push(cur.nullable());
        match cur.as_list() { Some(inner) => cur = inner, None => break }
    }
    json!({"base": t.base_type(), "mods": mods, "text": t.to_string()})
}

pub fn type_from_serde(v: &Value) -> Value {
    match v.as_str() { Some(s) => type_json(&Type::parse(s).unwrap()), None => json!({"base":"?","mods":[],"text": v.to_string()}) }
}

fn params_json(p: Option<&Value>) -> Value {
    match p {
        None => json!([]),
        Some(p) => Value::Array(p["contents"].as_object().map(|o| o.iter().map(|(k, v)| json!([k, tagged(v)])).collect()).unwrap_or_default()),
    }
}

pub fn opname(name: &str) -> &'static str {
    match name {
        "IsNull" => "is_null", "IsNotNull" => "is_not_null", "Equals" => "=", "NotEquals" => "!=", "LessThan" => "<", "LessThanOrEqual" => "<=",
        "GreaterThan" => ">", "GreaterThanOrEqual" => ">=", "Contains" => "contains", "NotContains" => "not_contains", "OneOf" => "one_of",
        "NotOneOf" => "not_one_of", "HasPrefix" => "has_prefix", "NotHasPrefix" => "not_has_prefix", "HasSuffix" => "has_suffix",
        "NotHasSuffix" => "not_has_suffix", "HasSubstring" => "has_substring", "NotHasSubstring" => "not_has_substring",
        "RegexMatches" => "regex", "NotRegexMatches" => "not_regex", _ => "?",
    }
}

fn tagref(t: &Value) -> Value {
    if let Some(c) = t.get("ContextField") { json!({"k":"tag","vid": c["vertex_id"], "field": c["field_name"], "eid": 0, "type": type_from_serde(&c["field_type"]), "n": ""}) }
    else { json!({"k":"cnt","vid": 0, "field": "", "eid": t["FoldSpecificField"]["fold_eid"], "type": type_json(&Type::parse("Int!").unwrap()), "n": ""}) }
}

fn op_json(f: &Value) -> Value {
    let (name, body) = f.as_object().unwrap().iter().next().unwrap();
    let (left, right) = if body.is_array() { (&body[0], Some(&body[1])) } else { (body, None) };
    let (field, ltype) = if left.is_object() && left.get("field_name").is_some() { (left["field_name"].as_str().unwrap().to_string(), type_from_serde(&left["field_type"])) } else { ("@count".to_string(), type_json(&Type::parse("Int!").unwrap())) };
    let arg = match right {
        None => json!({"k":"none","vid":0,"field":"","eid":0,"n":"","type": json!({"base":"","mods":[],"text":""})}),
        Some(r) => {
            if let Some(v) = r.get("Variable") { json!({"k":"var","vid":0,"field":"","eid":0,"n": v["variable_name"], "type": type_from_serde(&v["variable_type"])}) }
            else { tagref(&r["Tag"]) }
        }
    };
    json!({"op": opname(name), "field": field, "ltype": ltype, "arg": arg})
}

fn comp_json(c: &Value, parent_fold: u64, out: &mut Vec<Value>) {
    let mut vertices = vec![];
    for (k, v) in c["vertices"].as_object().unwrap() {
        vertices.push(json!({"key": k.parse::<u64>().unwrap_or(0), "vid": v["vid"], "type": v["type_name"],
            "from": v.get("coerced_from_type").and_then(|x| x.as_str()).unwrap_or(""),
            "filters": v.get("filters").and_then(|f| f.as_array()).map(|a| a.iter().map(op_json).collect::<Vec<_>>()).unwrap_or_default()}));
    }
    vertices.sort_by_key(|v| v["vid"].as_u64().unwrap());
    let mut items = vec![];
    if let Some(es) = c.get("edges").and_then(|e| e.as_object()) {
        for (k, e) in es {
            items.push(json!({"kind":"edge","key": k.parse::<u64>().unwrap_or(0),"eid": e["eid"], "from": e["from_vid"], "to": e["to_vid"], "name": e["edge_name"], "params": params_json(e.get("parameters")),
                "optional": e.get("optional").and_then(|x| x.as_bool()).unwrap_or(false),
                "depth": e.get("recursive").map(|r| r["depth"].clone()).unwrap_or(json!(0)),
                "coerceTo": e.get("recursive").and_then(|r| r.get("coerce_to")).and_then(|x| x.as_str()).unwrap_or(""),
                "imported": [], "post": [], "cntOut": [], "cntOutTypes": []}));
        }
    }
    if let Some(fs) = c.get("folds").and_then(|e| e.as_object()) {
        for (k, f) in fs {
            let imported: Vec<Value> = f.get("imported_tags").and_then(|x| x.as_array()).map(|a| a.iter().map(tagref).collect()).unwrap_or_default();
            let post: Vec<Value> = f.get("post_filters").and_then(|x| x.as_array()).map(|a| a.iter().map(op_json).collect()).unwrap_or_default();
            let cnt_out: Vec<Value> = f.get("fold_specific_outputs").and_then(|x| x.as_object()).map(|o| o.keys().map(|k| json!(k)).collect()).unwrap_or_default();
            items.push(json!({"kind":"fold","key": k.parse::<u64>().unwrap_or(0),"eid": f["eid"], "from": f["from_vid"], "to": f["to_vid"], "name": f["edge_name"], "params": params_json(f.get("parameters")),
                "optional": false, "depth": 0, "coerceTo": "", "imported": imported, "post": post, "cntOut": cnt_out, "cntOutTypes": []}));
            comp_json(&f["component"], f["eid"].as_u64().unwrap(), out);
        }
    }
    items.sort_by_key(|v| v["eid"].as_u64().unwrap());
    let mut outputs = vec![];
    if let Some(os) = c.get("outputs").and_then(|e| e.as_object()) {
        for (n, o) in os { outputs.push(json!({"name": n, "vid": o["vertex_id"], "field": o["field_name"], "type": type_from_serde(&o["field_type"])})); }
    }
    // sorted by name: the order in which construct_outputs / compute_fold resolve them (output_names.sort_unstable())
    outputs.sort_by(|a, b| a["name"].as_str().unwrap().cmp(b["name"].as_str().unwrap()));
    out.push(json!({"root": c["root"], "parentFold": parent_fold, "vertices": vertices, "items": items, "outputs": outputs}));
}

/// The structural skeleton of the compiled query.
pub fn ir_json(iq: &IndexedQuery) -> Value {
    let irv = serde_json::to_value(&iq.ir_query).unwrap();
    let mut comps = vec![];
    comp_json(&irv["root_component"], 0, &mut comps);
    comps.sort_by_key(|c| c["root"].as_u64().unwrap());
    let vars: Vec<Value> = iq.ir_query.variables.iter().map(|(k, t)| json!([k.as_ref(), type_json(t)])).collect();
    let declared: Vec<Value> = iq.outputs.iter().map(|(k, o)| json!([k.as_ref(), type_json(&o.value_type), crate::val::idn(&o.vid)])).collect();
    let vids: Vec<u64> = iq.vids.keys().map(|v| crate::val::idn(v)).collect();
    let eids: Vec<u64> = iq.eids.keys().map(|e| crate::val::idn(e)).collect();
    json!({"rootName": irv["root_name"], "rootParams": params_json(irv.get("root_parameters")), "comps": comps, "vars": vars, "declared": declared, "vids": vids, "eids": eids})
}
