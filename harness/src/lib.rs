pub mod graph;
pub mod irx;
pub mod val;
pub mod wrappers;
pub mod observe;
pub mod tracex;
pub mod tovalue;
pub mod schemax;
pub mod threadsx;
pub mod pure;
pub mod pure2;

use std::io::{BufRead, Write};

pub fn read_ndjson(path: &str) -> Vec<serde_json::Value> {
    let f = std::fs::File::open(path).unwrap_or_else(|e| panic!("open {path}: {e}"));
    std::io::BufReader::new(f).lines().map(|l| l.unwrap()).filter(|l| !l.trim().is_empty()).map(|l| serde_json::from_str(&l).unwrap_or_else(|e| panic!("bad json line: {e}: {l}"))).collect()
}

pub fn write_ndjson(path: &str, vals: &[serde_json::Value]) {
    let mut w = std::io::BufWriter::new(std::fs::File::create(path).unwrap_or_else(|e| panic!("create {path}: {e}")));
    for v in vals { writeln!(w, "{v}").unwrap(); }
}
