//! `vh observe`: run the real frontend and engine over instances and export observations.
use std::{cell::RefCell, collections::BTreeMap, panic::{self, AssertUnwindSafe}, rc::Rc, sync::Arc};

use serde_json::{json, Value};
use trustfall_core::{
    frontend::parse,
    interpreter::{execution::interpret_ir, trace::{tap_results, AdapterTap, Trace}, Adapter},
    ir::{FieldValue, IndexedQuery},
    schema::Schema,
};

use crate::{
    graph::{G, GA, V},
    irx::ir_json,
    val::{panic_msg, row_json, to_fv},
    wrappers::*,
};

pub struct Ctx { pub schemas: BTreeMap<String, Result<Arc<Schema>, String>> }

impl Ctx {
    pub fn new() -> Self { Ctx { schemas: BTreeMap::new() } }
    pub fn schema(&mut self, sdl: &str) -> Result<Arc<Schema>, String> {
        self.schemas.entry(sdl.to_string()).or_insert_with(|| {
            match panic::catch_unwind(|| Schema::parse(sdl)) {
                Ok(Ok(s)) => Ok(Arc::new(s)),
                Ok(Err(e)) => Err(format!("schema error: {e}")),
                Err(p) => Err(format!("schema panic: {}", panic_msg(p))),
            }
        }).clone()
    }
}

pub fn args_of(inst: &Value) -> BTreeMap<Arc<str>, FieldValue> {
    inst["args"].as_object().map(|o| o.iter().map(|(k, v)| (Arc::from(k.as_str()), to_fv(v))).collect()).unwrap_or_default()
}

pub fn run_rows<'a, A: Adapter<'a> + 'a>(adapter: Arc<A>, iq: &Arc<IndexedQuery>, args: &Arc<BTreeMap<Arc<str>, FieldValue>>, limit: usize) -> Result<Result<Vec<Row>, String>, String> {
    let iq = iq.clone(); let args = args.clone();
    panic::catch_unwind(AssertUnwindSafe(move || match interpret_ir(adapter, iq, args) {
        Ok(it) => { let rows: Vec<Row> = it.take(limit + 1).collect(); Ok(rows) }
        Err(e) => Err(format!("{e:?}")),
    })).map_err(panic_msg)
}

fn xorshift(s: &mut u64) -> u64 { *s ^= *s << 13; *s ^= *s >> 7; *s ^= *s << 17; *s }

pub fn random_policy(seed: &mut u64, n: usize, maxchunk: usize) -> Policy {
    (0..n).map(|_| { let r = xorshift(seed); ((r >> 11) & 1 == 1, 1 + ((r >> 20) % maxchunk as u64) as usize) }).collect()
}

pub const ROW_LIMIT: usize = 5000;

/// variant names of a frontend error, MultipleErrors flattened, wrappers (FilterTypeError / ValidationError / ParseError) replaced by their inner variant
pub fn error_kinds(e: &trustfall_core::frontend::error::FrontendError) -> Vec<String> {
    use trustfall_core::frontend::error::FrontendError as FE;
    fn head(s: String) -> String { s.chars().take_while(|c| c.is_alphanumeric() || *c == '_').collect() }
    match e {
        FE::MultipleErrors(v) => v.0.iter().flat_map(error_kinds).collect(),
        FE::FilterTypeError(x) => vec![head(format!("{x:?}"))],
        FE::ValidationError(x) => vec![head(format!("{x:?}"))],
        FE::ParseError(x) => vec![format!("Parse:{}", head(format!("{x:?}")))],
        other => vec![head(format!("{other:?}"))],
    }
}

pub fn observe(inst: &Value, modes: &[String], ctx: &mut Ctx, seed: u64) -> Value {
    let has = |m: &str| modes.iter().any(|x| x == m || x.starts_with(&format!("{m}:")));
    let modeval = |m: &str, d: usize| modes.iter().find_map(|x| x.strip_prefix(&format!("{m}:")).map(|v| v.parse().unwrap())).unwrap_or(d);
    let mut obs = json!({"id": inst["id"]});
    // `freshSchema`: the schema is parsed for this instance alone and dropped afterwards (C14: results must not depend on what the process
    // compiled before, nor on an earlier schema having lived at the same address)
    let fresh = inst.get("freshSchema").and_then(|x| x.as_bool()).unwrap_or(false);
    let schema = match if fresh { Ctx::new().schema(inst["sdl"].as_str().unwrap()) } else { ctx.schema(inst["sdl"].as_str().unwrap()) } {
        Ok(s) => s,
        Err(e) => { obs["compile"] = json!({"t":"schema","err": e}); return obs; }
    };
    let text = inst["text"].as_str().unwrap().to_string();
    let s2 = schema.clone();
    let iq = match panic::catch_unwind(AssertUnwindSafe(|| parse(&s2, &text))) {
        Ok(Ok(iq)) => iq,
        Ok(Err(e)) => { obs["compile"] = json!({"t":"err","err": e.to_string(), "dbg": format!("{e:?}").chars().take(300).collect::<String>(), "kinds": error_kinds(&e)}); return obs; }
        Err(p) => { obs["compile"] = json!({"t":"panic","err": panic_msg(p)}); return obs; }
    };
    obs["compile"] = json!({"t":"ok"});
    if has("ir") { obs["ir"] = ir_json(&iq); }
    if has("irrt") {
        // C16: the compiled query survives serialisation round trips (JSON and RON; IRQuery and IndexedQuery)
        let iq2 = iq.clone();
        obs["irrt"] = panic::catch_unwind(AssertUnwindSafe(move || {
            let j = serde_json::to_string(&iq2.ir_query).unwrap();
            let ir_json_ok = serde_json::from_str::<trustfall_core::ir::IRQuery>(&j).map(|b| b == iq2.ir_query).unwrap_or(false);
            let r = ron::to_string(&iq2.ir_query).unwrap();
            let ir_ron_ok = ron::from_str::<trustfall_core::ir::IRQuery>(&r).map(|b| b == iq2.ir_query).unwrap_or(false);
            let r2 = ron::to_string(&*iq2).unwrap();
            let iq_ron_ok = ron::from_str::<IndexedQuery>(&r2).map(|b| b == *iq2).unwrap_or(false);
            let reindexed_ok = IndexedQuery::try_from(iq2.ir_query.clone()).map(|b| b == *iq2).unwrap_or(false);
            json!({"t":"ok","irJson": ir_json_ok, "irRon": ir_ron_ok, "iqRon": iq_ron_ok, "reindexed": reindexed_ok, "bytes": j.len()})
        })).unwrap_or_else(|p| json!({"t":"panic","err": panic_msg(p)}));
    }
    if has("argcheck") {
        // C12: argument validation only (InterpretedQuery::from_query_and_arguments), several argument maps per instance
        use trustfall_core::interpreter::{error::QueryArgumentsError, InterpretedQuery};
        fn classify(e: &QueryArgumentsError, out: &mut (Vec<String>, Vec<String>, Vec<String>)) {
            match e {
                QueryArgumentsError::MissingArguments(v) => out.0.extend(v.iter().cloned()),
                QueryArgumentsError::UnusedArguments(v) => out.1.extend(v.iter().cloned()),
                QueryArgumentsError::ArgumentTypeError(n, _, _) => out.2.push(n.clone()),
                QueryArgumentsError::MultipleErrors(v) => for x in v.0.iter() { classify(x, out); },
            }
        }
        let mut res = vec![];
        for m in inst["argmaps"].as_array().cloned().unwrap_or_default() {
            let given: BTreeMap<Arc<str>, FieldValue> = m.as_array().unwrap().iter().map(|p| (Arc::from(p[0].as_str().unwrap()), to_fv(&p[1]))).collect();
            let iq2 = iq.clone();
            let r = panic::catch_unwind(AssertUnwindSafe(move || InterpretedQuery::from_query_and_arguments(iq2, Arc::new(given))));
            res.push(match r {
                Err(p) => json!({"t":"panic","err": panic_msg(p), "missing": [], "unused": [], "badtype": []}),
                Ok(Ok(_)) => json!({"t":"ok", "missing": [], "unused": [], "badtype": []}),
                Ok(Err(e)) => { let mut o = (vec![], vec![], vec![]); classify(&e, &mut o); json!({"t":"argerr","missing": o.0, "unused": o.1, "badtype": o.2, "text": e.to_string().chars().take(300).collect::<String>()}) }
            });
        }
        obs["argcheck"] = json!(res);
        obs["ir"] = ir_json(&iq);
        return obs;
    }
    let mut args = args_of(inst);
    if !has("rawargs") && inst["rawargs"].as_bool() != Some(true) { args.retain(|k, _| iq.ir_query.variables.contains_key(k)); }
    obs["args"] = Value::Object(args.iter().map(|(k, v)| (k.to_string(), crate::val::from_fv(v))).collect());
    let args = Arc::new(args);
    let g = Arc::new(G::from_inst(inst));
    let ga = GA { g: g.clone() };

    // plain run
    #[allow(clippy::arc_with_non_send_sync)]
    let plain = run_rows(Arc::new(ga.clone()), &iq, &args, ROW_LIMIT);
    let raw: Vec<Row> = match plain {
        Err(p) => { obs["exec"] = json!({"t":"panic","err": p}); return obs; }
        Ok(Err(e)) => { obs["exec"] = json!({"t":"argerr","err": e}); return obs; }
        Ok(Ok(rows)) => rows,
    };
    if raw.len() > ROW_LIMIT { obs["exec"] = json!({"t":"toolong"}); return obs; }
    obs["exec"] = json!({"t":"ok","rows": raw.iter().map(row_json).collect::<Vec<_>>()});

    if has("batch") {
        let trials = modeval("batch", 8);
        let maxchunk = modeval("chunk", 3);
        let mut sd = seed ^ 0x9E3779B97F4A7C15 ^ ((inst["id"].as_u64().unwrap_or(0)) << 17) | 1;
        let mut bad = vec![]; let mut ncalls = 0usize; let mut ran = 0usize;
        let mut pols: Vec<(Policy, (bool, usize))> = vec![];
        if let Some(ps) = inst["policies"].as_array() { for p in ps { pols.push((parse_policy(p["p"].as_str().unwrap_or("")), { let d = parse_policy(p["d"].as_str().unwrap_or("n1")); d.first().cloned().unwrap_or((false, 1)) })); } }
        for _ in 0..trials { pols.push((random_policy(&mut sd, 64, maxchunk), (false, 1))); }
        for (pol, dflt) in pols {
            let b = Batching::new(ga.clone(), &pol, dflt);
            let nc = b.ncalls.clone();
            #[allow(clippy::arc_with_non_send_sync)]
            let r = run_rows(Arc::new(b), &iq, &args, ROW_LIMIT);
            ncalls = ncalls.max(*nc.borrow()); ran += 1;
            let used: Policy = pol.iter().take(*nc.borrow()).cloned().collect();
            match r {
                Err(p) => bad.push(json!({"policy": policy_str(&used), "default": policy_str(&vec![dflt]), "what": "panic", "err": p})),
                Ok(Err(e)) => bad.push(json!({"policy": policy_str(&used), "default": policy_str(&vec![dflt]), "what": "argerr", "err": e})),
                Ok(Ok(rows)) => if rows != raw {
                    bad.push(json!({"policy": policy_str(&used), "default": policy_str(&vec![dflt]), "what": "rows", "rows": rows.iter().map(row_json).collect::<Vec<_>>()}));
                }
            }
        }
        obs["batch"] = json!({"policies": ran, "ncalls": ncalls, "bad": bad});
    }

    if has("prune") {
        let (props, edges) = names_of(inst);
        let st = PruneStats::default();
        let pa = Pruning { inner: ga.clone(), props: Arc::new(props), edges: Arc::new(edges), st: st.clone(), depth: 3 };
        #[allow(clippy::arc_with_non_send_sync)]
        let r = run_rows(Arc::new(pa), &iq, &args, ROW_LIMIT);
        let s = *st.stat.borrow();
        let mut o = json!({"static": s[0], "mandatory": s[1], "dynamic": s[2], "pruned": s[3], "hints": st.hints.borrow().clone()});
        match r {
            Err(p) => { o["t"] = json!("panic"); o["err"] = json!(p); }
            Ok(Err(e)) => { o["t"] = json!("argerr"); o["err"] = json!(e); }
            Ok(Ok(rows)) => { o["t"] = json!("ok"); o["rows"] = json!(rows.iter().map(row_json).collect::<Vec<_>>()); }
        }
        obs["prune"] = o;
    }

    if has("calls") {
        let st = CallLogState::default();
        let cl = CallLog { inner: ga.clone(), st: st.clone() };
        let cl2 = cl.clone();
        #[allow(clippy::arc_with_non_send_sync)]
        let r = run_rows(Arc::new(cl), &iq, &args, ROW_LIMIT);
        let same = matches!(&r, Ok(Ok(rows)) if *rows == raw);
        obs["calls"] = json!({"same": same, "calls": cl2.finish(), "seq": if has("callseq") { json!(st.seq.borrow().clone()) } else { json!([]) }});
    }

    if has("pulls") {
        // C03: how many starting vertices had been pulled when row k was produced; further accesses after dropping at k
        let c = Counters::default();
        let ad = Counting { inner: ga.clone(), c: c.clone() };
        let iq2 = iq.clone(); let args2 = args.clone();
        let r = panic::catch_unwind(AssertUnwindSafe(move || {
            #[allow(clippy::arc_with_non_send_sync)]
            let mut it = interpret_ir(Arc::new(ad), iq2, args2).unwrap();
            let before_first = (*c.starts.borrow(), *c.accesses.borrow());
            let mut pulls = vec![]; let mut pulled_ids = vec![];
            while let Some(_row) = it.next() { pulls.push(*c.starts.borrow()); pulled_ids.push(c.start_ids.borrow().last().cloned().unwrap_or(0)); if pulls.len() > ROW_LIMIT { break; } }
            let at_end = *c.starts.borrow();
            json!({"before_first": [before_first.0, before_first.1], "pulls": pulls, "last_start": pulled_ids, "total_starts": at_end})
        }));
        let mut o = match r { Ok(v) => v, Err(p) => json!({"t":"panic","err": panic_msg(p)}) };
        // early-drop probes: for each prefix length k, take k rows, drop, and count accesses after the drop
        let mut drops = vec![];
        for k in 0..=raw.len().min(6) {
            let c = Counters::default();
            let ad = Counting { inner: ga.clone(), c: c.clone() };
            let iq2 = iq.clone(); let args2 = args.clone();
            let r = panic::catch_unwind(AssertUnwindSafe(move || {
                #[allow(clippy::arc_with_non_send_sync)]
                let mut it = interpret_ir(Arc::new(ad), iq2, args2).unwrap();
                for _ in 0..k { it.next(); }
                let at_drop = *c.accesses.borrow();
                drop(it);
                let after = *c.accesses.borrow();
                json!([k, at_drop, after])
            }));
            drops.push(r.unwrap_or_else(|p| json!({"panic": panic_msg(p)})));
        }
        o["drops"] = json!(drops);
        obs["pulls"] = o;
    }

    if has("tap") {
        obs["tap"] = tap_check(&ga, &iq, &args, &raw);
    }

    if has("sched") {
        // binding A: schedules generated by TLC from spec/Interp.tla, replayed through the Scripted adapter
        let cap = modeval("sched", 2);
        let mut bad = vec![]; let mut ran = 0usize; let mut mism = 0usize;
        if let Some(ss) = inst["scheds"].as_array() {
            for sc in ss {
                let text = sc.as_str().unwrap_or("");
                let script = Script::new(text);
                let ad = Scripted { inner: ga.clone(), cap, script: script.clone() };
                #[allow(clippy::arc_with_non_send_sync)]
                let r = run_rows(Arc::new(ad), &iq, &args, ROW_LIMIT);
                ran += 1;
                let off = *script.mismatches.borrow() + script.leftover();
                if off > 0 { mism += 1; }
                match r {
                    Err(p) => bad.push(json!({"sched": text, "what": "panic", "err": p})),
                    Ok(Err(e)) => bad.push(json!({"sched": text, "what": "argerr", "err": e})),
                    Ok(Ok(rows)) => if rows != raw { bad.push(json!({"sched": text, "what": "rows", "rows": rows.iter().map(row_json).collect::<Vec<_>>()})); }
                }
            }
        }
        obs["sched"] = json!({"ran": ran, "bad": bad, "script_drift": mism});
    }

    if has("trace") {
        // binding B: event traces of Tap(Batching(GA)) under the instance's `tpolicies` (default: the unbatched policy n1)
        let max_rows = modeval("trace", ROW_LIMIT);
        let mut pols: Vec<(Policy, (bool, usize))> = vec![];
        if let Some(ps) = inst["tpolicies"].as_array() { for p in ps { pols.push((parse_policy(p["p"].as_str().unwrap_or("")), { let d = parse_policy(p["d"].as_str().unwrap_or("n1")); d.first().cloned().unwrap_or((false, 1)) })); } }
        if pols.is_empty() { pols.push((vec![], (false, 1))); }
        let mut out = vec![];
        for (pol, dflt) in pols {
            let mut t = crate::tracex::trace_run(&ga, &iq, &args, &pol, dflt, max_rows);
            t["policy"] = json!(policy_str(&pol)); t["default"] = json!(policy_str(&vec![dflt]));
            out.push(t);
        }
        obs["trace"] = json!(out);
    }
    obs
}

/// C15: rows through the tracing adapter, trace (de)serialisation, replay without the data source.
pub fn tap_check(ga: &GA, iq: &Arc<IndexedQuery>, args: &Arc<BTreeMap<Arc<str>, FieldValue>>, raw: &[Row]) -> Value {
    let ga = ga.clone(); let iq = iq.clone(); let args = args.clone(); let raw: Vec<Row> = raw.to_vec();
    let r = panic::catch_unwind(AssertUnwindSafe(move || {
        let targs: BTreeMap<String, FieldValue> = args.iter().map(|(k, v)| (k.to_string(), v.clone())).collect();
        let tracer = Rc::new(RefCell::new(Trace::new(iq.ir_query.clone(), targs)));
        #[allow(clippy::arc_with_non_send_sync)]
        let mut tap = Arc::new(AdapterTap::new(ga, tracer));
        let rows: Vec<Row> = tap_results(tap.clone(), interpret_ir(tap.clone(), iq.clone(), args.clone()).unwrap()).collect();
        let trace: Trace<V> = Arc::make_mut(&mut tap).clone().finish();
        let same_rows = rows == raw;
        let nops = trace.ops.len();
        // serialise / deserialise through RON (the format of the repository's own trace corpus)
        let text = ron::ser::to_string(&trace).map_err(|e| format!("ron ser: {e}"));
        let (roundtrip_eq, replay) = match &text {
            Err(e) => (false, json!({"t":"sererr","err": e})),
            Ok(t) => match ron::from_str::<Trace<V>>(t) {
                Err(e) => (false, json!({"t":"deerr","err": e.to_string()})),
                Ok(back) => {
                    let eq = back == trace;
                    let exp = raw.clone();
                    let rp = panic::catch_unwind(AssertUnwindSafe(move || {
                        trustfall_core::interpreter::replay::assert_interpreted_results(&back, &exp, true);
                    }));
                    match rp {
                        Ok(()) => (eq, json!({"t":"ok","same": true})),
                        Err(p) => (eq, json!({"t":"mismatch","same": false, "err": panic_msg(p).chars().take(400).collect::<String>()})),
                    }
                }
            },
        };
        json!({"t":"ok","same_rows": same_rows, "ops": nops, "roundtrip_eq": roundtrip_eq, "replay": replay})
    }));
    r.unwrap_or_else(|p| json!({"t":"panic","err": panic_msg(p)}))
}
