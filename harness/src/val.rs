//! Value codec shared with the TLA+ side (see spec/Values.tla, DESIGN appendix A).
//!
//! int    {"k":"int","r":"i"|"u","v":[a,b,c]}   offset-binary limbs: x + 2^63 = a*2^48 + b*2^24 + c
//! float  {"k":"float","v":n}                     the value n/2 (n integer)
//! str    {"k":"str","v":["a","b"]}               one element per char
//! bool   {"k":"bool","v":true}   enum {"k":"enum","v":[chars]}   list {"k":"list","v":[..]}   null {"k":"null"}
use serde_json::{json, Value};
use trustfall_core::ir::FieldValue;

const OFF: u128 = 1u128 << 63;

pub fn limbs(x: i128) -> Value {
    let y = (x + OFF as i128) as u128;
    json!([(y >> 48) as u64, ((y >> 24) & 0xFF_FFFF) as u64, (y & 0xFF_FFFF) as u64])
}

pub fn unlimbs(v: &Value) -> i128 {
    let a = v[0].as_u64().unwrap() as u128;
    let b = v[1].as_u64().unwrap() as u128;
    let c = v[2].as_u64().unwrap() as u128;
    ((a << 48) | (b << 24) | c) as i128 - OFF as i128
}

pub fn chars(s: &str) -> Value {
    Value::Array(s.chars().map(|c| Value::String(c.to_string())).collect())
}

pub fn unchars(v: &Value) -> String {
    v.as_array().unwrap().iter().map(|c| c.as_str().unwrap()).collect()
}

pub fn to_fv(v: &Value) -> FieldValue {
    match v["k"].as_str().unwrap_or_else(|| panic!("bad value {v}")) {
        "null" => FieldValue::Null,
        "int" => {
            let x = unlimbs(&v["v"]);
            match v["r"].as_str().unwrap_or("i") {
                "u" => FieldValue::Uint64(u64::try_from(x).expect("u64 range")),
                _ => FieldValue::Int64(i64::try_from(x).expect("i64 range")),
            }
        }
        "float" => FieldValue::Float64(v["v"].as_i64().unwrap() as f64 / 2.0),
        "str" => FieldValue::String(unchars(&v["v"]).into()),
        "bool" => FieldValue::Boolean(v["v"].as_bool().unwrap()),
        "enum" => FieldValue::Enum(unchars(&v["v"]).into()),
        "list" => FieldValue::List(v["v"].as_array().unwrap().iter().map(to_fv).collect::<Vec<_>>().into()),
        k => panic!("kind {k}"),
    }
}

pub fn from_fv(v: &FieldValue) -> Value {
    match v {
        FieldValue::Null => json!({"k":"null"}),
        FieldValue::Int64(n) => json!({"k":"int","r":"i","v":limbs(*n as i128)}),
        FieldValue::Uint64(n) => json!({"k":"int","r":"u","v":limbs(*n as i128)}),
        FieldValue::Float64(f) => {
            let d = f * 2.0;
            if d.fract() == 0.0 && d.abs() < 1e9 {
                json!({"k":"float","v": d as i64})
            } else {
                json!({"k":"other","v": format!("{f:?}")})
            }
        }
        FieldValue::String(s) => json!({"k":"str","v": chars(s)}),
        FieldValue::Boolean(b) => json!({"k":"bool","v":b}),
        FieldValue::Enum(s) => json!({"k":"enum","v": chars(s)}),
        FieldValue::List(l) => json!({"k":"list","v": l.iter().map(from_fv).collect::<Vec<_>>()}),
        #[allow(unreachable_patterns)]
        other => json!({"k":"other","v": format!("{other:?}")}),
    }
}

/// Human-readable rendering (for evidence samples and replay files).
pub fn pretty(v: &Value) -> String {
    match v["k"].as_str().unwrap_or("?") {
        "null" => "null".into(),
        "int" => format!("{}{}", unlimbs(&v["v"]), if v["r"] == "u" { "u" } else { "" }),
        "float" => format!("{:?}", v["v"].as_i64().unwrap_or(0) as f64 / 2.0),
        "str" => format!("{:?}", unchars(&v["v"])),
        "enum" => format!("#{}", unchars(&v["v"])),
        "bool" => v["v"].to_string(),
        "list" => format!("[{}]", v["v"].as_array().unwrap().iter().map(pretty).collect::<Vec<_>>().join(", ")),
        _ => v.to_string(),
    }
}

pub fn row_json(r: &std::collections::BTreeMap<std::sync::Arc<str>, FieldValue>) -> Value {
    Value::Array(r.iter().map(|(k, v)| json!([k.as_ref(), from_fv(v)])).collect())
}

pub fn panic_msg(p: Box<dyn std::any::Any + Send>) -> String {
    p.downcast_ref::<String>().cloned().or(p.downcast_ref::<&str>().map(|s| s.to_string())).unwrap_or_else(|| "<non-string panic>".into())
}

/// numeric value of a Vid / Eid (their field is crate-private; serde exposes it)
pub fn idn<T: serde::Serialize>(x: &T) -> u64 { serde_json::to_value(x).unwrap().as_u64().unwrap() }
