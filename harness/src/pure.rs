//! Replays of TLC-enumerated abstract cases through the pure-function libraries (binding A for
//! C06 candidates, C08 value order, C16 round trips, C17 types, C18 decoding).
use std::{cmp::Ordering, ops::Bound, panic::{self, AssertUnwindSafe}};

use serde_json::{json, Value};
use trustfall_core::{
    interpreter::{verif_hints_hooks as hh, CandidateValue, Range},
    ir::{verif_hooks as th, FieldValue, TransparentValue, Type},
};

use crate::val::{from_fv, panic_msg, to_fv};

fn guard<F: FnOnce() -> Value>(f: F) -> Value {
    panic::catch_unwind(AssertUnwindSafe(f)).unwrap_or_else(|p| json!({"panic": panic_msg(p)}))
}

// ------------------------------------------------------------------ C08
pub fn valcmp(universe: &Value) -> Value {
    let mut vals: Vec<Value> = vec![];
    for k in ["scalars", "lists1", "lists2"] { vals.extend(universe[k].as_array().cloned().unwrap_or_default()); }
    let fvs: Vec<FieldValue> = vals.iter().map(to_fv).collect();
    let mut rows = vec![];
    for (i, a) in fvs.iter().enumerate() {
        let mut eq = vec![]; let mut cmp = vec![];
        for b in fvs.iter() {
            let r = guard(|| {
                let e = a == b;
                let c = match a.partial_cmp(b) { Some(Ordering::Less) => "lt", Some(Ordering::Equal) => "eq", Some(Ordering::Greater) => "gt", None => "none" };
                json!([e, c])
            });
            if r.get("panic").is_some() { eq.push(json!(false)); cmp.push(json!(format!("panic: {}", r["panic"].as_str().unwrap_or("")))); }
            else { eq.push(r[0].clone()); cmp.push(r[1].clone()); }
        }
        rows.push(json!({"i": i + 1, "v": vals[i], "eq": eq, "cmp": cmp}));
    }
    json!({"values": vals, "rows": rows})
}

// ------------------------------------------------------------------ C06
fn bound_of(v: &Value) -> Bound<FieldValue> {
    match v["t"].as_str().unwrap() { "unb" => Bound::Unbounded, "inc" => Bound::Included(to_fv(&v["v"])), "exc" => Bound::Excluded(to_fv(&v["v"])), o => panic!("bound {o}") }
}
pub fn cand_of(v: &Value) -> CandidateValue<FieldValue> {
    match v["t"].as_str().unwrap() {
        "impossible" => CandidateValue::Impossible,
        "single" => CandidateValue::Single(to_fv(&v["v"])),
        "multiple" => CandidateValue::Multiple(v["vs"].as_array().unwrap().iter().map(to_fv).collect()),
        "range" => CandidateValue::Range(hh::range_new(bound_of(&v["lo"]), bound_of(&v["hi"]), v["nullIncl"].as_bool().unwrap())),
        "all" => CandidateValue::All,
        o => panic!("cand {o}"),
    }
}
/// membership according to the implementation's own public API (Range::contains, PartialEq)
fn impl_contains(c: &CandidateValue<FieldValue>, x: &FieldValue) -> bool {
    match c {
        CandidateValue::Impossible => false,
        CandidateValue::Single(v) => v == x,
        CandidateValue::Multiple(vs) => vs.iter().any(|v| v == x),
        CandidateValue::Range(r) => r.contains(x),
        CandidateValue::All => true,
        _ => true,
    }
}
/// one case: {"op": "intersect"|"normalize"|"exclude", "a": cand, "b": cand|value, "probes": [values]}
pub fn cand_case(case: &Value) -> Value {
    guard(|| {
        let probes: Vec<FieldValue> = case["probes"].as_array().unwrap().iter().map(to_fv).collect();
        let a = cand_of(&case["a"]);
        let res = match case["op"].as_str().unwrap() {
            "intersect" => hh::intersect(a.clone(), cand_of(&case["b"])),
            "normalize" => hh::normalize(a.clone()),
            "exclude" => hh::exclude_single_value(a.clone(), &to_fv(&case["b"])),
            o => panic!("op {o}"),
        };
        // membership of every probe in the result, judged two ways: by the implementation's own `contains`
        // and by the harness's independent one (both are reported; the TLC judge uses the independent one
        // for the result and compares the implementation's `contains` separately)
        let mem_indep: Vec<bool> = probes.iter().map(|p| crate::wrappers::cand_contains(&res, p)).collect();
        let mem_impl: Vec<bool> = probes.iter().map(|p| impl_contains(&res, p)).collect();
        let a_impl: Vec<bool> = probes.iter().map(|p| impl_contains(&a, p)).collect();
        json!({"id": case["id"], "res": crate::wrappers::cand_json(&res), "mem": mem_indep, "memImpl": mem_impl, "aImpl": a_impl})
    })
}

// ------------------------------------------------------------------ C17 / C16 (types)
pub fn ty_of(v: &Value) -> Type {
    // {"base":..., "mods":[outermost..leaf]}
    let mods: Vec<bool> = v["mods"].as_array().unwrap().iter().map(|b| b.as_bool().unwrap()).collect();
    let mut t = Type::new_named_type(v["base"].as_str().unwrap(), *mods.last().unwrap());
    for n in mods[..mods.len() - 1].iter().rev() { t = Type::new_list_type(t, *n); }
    t
}
pub fn type_pair(case: &Value) -> Value {
    guard(|| {
        let a = ty_of(&case["a"]); let b = ty_of(&case["b"]);
        let inter = a.intersect(&b).map(|t| crate::irx::type_json(&t)).unwrap_or(json!({"base":"","mods":[],"text":""}));
        json!({"id": case["id"], "intersect": inter, "bSubA": th::is_scalar_only_subtype(&a, &b), "eqIgn": th::equal_ignoring_nullability(&a, &b),
               "orderable": th::is_orderable(&a)})
    })
}
pub fn type_one(case: &Value) -> Value {
    guard(|| {
        let a = ty_of(&case["a"]);
        let text = a.to_string();
        let parsed = Type::parse(&text).ok();
        let ser_json = serde_json::to_string(&a).unwrap();
        let back_json: Option<Type> = serde_json::from_str(&ser_json).ok();
        let ser_ron = ron::to_string(&a).unwrap();
        let back_ron: Option<Type> = ron::from_str(&ser_ron).ok();
        let fits: Vec<Value> = case["values"].as_array().map(|vs| vs.iter().map(|v| guard(|| json!(a.is_valid_value(&to_fv(v))))).collect()).unwrap_or_default();
        json!({"id": case["id"], "text": text, "tokens": tokens(&text), "parseBack": parsed.as_ref() == Some(&a), "jsonBack": back_json.as_ref() == Some(&a), "ronBack": back_ron.as_ref() == Some(&a),
               "nullable": a.nullable(), "isList": a.is_list(), "base": a.base_type(), "fits": fits})
    })
}
fn tokens(text: &str) -> Vec<String> {
    let mut out = vec![]; let mut cur = String::new();
    for c in text.chars() {
        if c == '[' || c == ']' || c == '!' { if !cur.is_empty() { out.push(std::mem::take(&mut cur)); } out.push(c.to_string()); } else { cur.push(c); }
    }
    if !cur.is_empty() { out.push(cur); }
    out
}

// ------------------------------------------------------------------ C16 (values)
pub fn value_roundtrip(v: &Value) -> Value {
    guard(|| {
        let fv = to_fv(v);
        let j = serde_json::to_string(&fv).unwrap();
        let back_j: Result<FieldValue, _> = serde_json::from_str(&j);
        let r = ron::to_string(&fv).unwrap();
        let back_r: Result<FieldValue, _> = ron::from_str(&r);
        let tv: TransparentValue = fv.clone().into();
        let tj = serde_json::to_string(&tv).unwrap();
        let back_t: Result<TransparentValue, _> = serde_json::from_str(&tj);
        let back_tf: Option<FieldValue> = back_t.ok().map(|t| t.into());
        let struct_eq = |x: &FieldValue| from_fv(x) == from_fv(&fv);
        json!({"v": v, "json": j, "jsonEq": back_j.as_ref().map(|x| x == &fv).unwrap_or(false), "jsonSame": back_j.as_ref().map(struct_eq).unwrap_or(false),
               "ronEq": back_r.as_ref().map(|x| x == &fv).unwrap_or(false), "ronSame": back_r.as_ref().map(struct_eq).unwrap_or(false),
               "untagged": tj, "untaggedEq": back_tf.as_ref().map(|x| x == &fv).unwrap_or(false), "untaggedBack": back_tf.as_ref().map(from_fv).unwrap_or(json!({"k":"error"}))})
    })
}

#[allow(dead_code)]
fn _unused(_: Range<FieldValue>) {}

// ------------------------------------------------------------------ C06, bulk form: every pair of the TLC-dumped candidates
pub fn cand_all(input: &Value) -> Vec<Value> {
    let cands: Vec<Value> = input["cands"].as_array().unwrap().clone();
    let probes: Vec<FieldValue> = input["probes"].as_array().unwrap().iter().map(to_fv).collect();
    let cj = |f: &dyn Fn() -> CandidateValue<FieldValue>| -> Value {
        panic::catch_unwind(AssertUnwindSafe(|| crate::wrappers::cand_json(&f()))).unwrap_or_else(|p| json!({"t":"panic","msg": panic_msg(p)}))
    };
    let mut out = vec![];
    for (i, a) in cands.iter().enumerate() {
        let norm = cj(&|| hh::normalize(cand_of(a)));
        let a_impl: Vec<Value> = probes.iter().map(|p| guard(|| json!(impl_contains(&cand_of(a), p)))).collect();
        let inter: Vec<Value> = cands.iter().map(|b| cj(&|| hh::intersect(cand_of(a), cand_of(b)))).collect();
        let excl: Vec<Value> = probes.iter().map(|v| cj(&|| hh::exclude_single_value(cand_of(a), v))).collect();
        out.push(json!({"i": i + 1, "norm": norm, "aImpl": a_impl, "inter": inter, "excl": excl}));
    }
    out
}
