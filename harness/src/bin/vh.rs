use std::panic;
use serde_json::Value;
use vh::{observe::{observe, Ctx}, pure, read_ndjson, write_ndjson};

fn read_json(path: &str) -> Value { serde_json::from_str(&std::fs::read_to_string(path).unwrap_or_else(|e| panic!("read {path}: {e}"))).unwrap() }

fn main() {
    let args: Vec<String> = std::env::args().collect();
    if std::env::var("VH_PANIC_TRACE").is_err() { panic::set_hook(Box::new(|_| {})); }
    let seed: u64 = std::env::var("VERIF_SEED").ok().and_then(|s| s.parse().ok()).unwrap_or(1);
    match args.get(1).map(|s| s.as_str()) {
        Some("observe") => {
            // vh observe <instances.ndjson> <out.ndjson> <modes,comma,separated>
            let insts = read_ndjson(&args[2]);
            let modes: Vec<String> = args.get(4).map(|m| m.split(',').map(|s| s.to_string()).collect()).unwrap_or_default();
            let mut ctx = Ctx::new();
            let out: Vec<_> = insts.iter().map(|i| observe(i, &modes, &mut ctx, seed)).collect();
            write_ndjson(&args[3], &out);
        }
        Some("threads") => { // vh threads <instances.ndjson> <out.json> <nthreads>
            let insts = read_ndjson(&args[2]);
            let n: usize = args.get(4).and_then(|x| x.parse().ok()).unwrap_or(8);
            let r = vh::threadsx::run(&insts, n);
            std::fs::write(&args[3], r.to_string()).unwrap();
        }
        Some("corpus") => { // vh corpus <dir with *.trace.ron> <out.ndjson>
            let mut files: Vec<_> = std::fs::read_dir(&args[2]).unwrap().filter_map(|e| e.ok()).map(|e| e.path()).filter(|p| p.to_string_lossy().ends_with(".trace.ron")).collect();
            files.sort();
            let out: Vec<Value> = files.iter().map(|p| { let mut v = vh::tracex::corpus_trace(&p.to_string_lossy()); v["file"] = serde_json::json!(p.file_name().unwrap().to_string_lossy()); v }).collect();
            write_ndjson(&args[3], &out);
        }
        Some("valcmp") => { // vh valcmp <universe.json> <out.ndjson>   (one line per value: eq / cmp against every value)
            let u = read_json(&args[2]);
            let r = pure::valcmp(&u);
            write_ndjson(&args[3], r["rows"].as_array().unwrap());
        }
        Some("candall") => { // vh candall <cands.json> <out.ndjson>
            let r = pure::cand_all(&read_json(&args[2]));
            write_ndjson(&args[3], &r);
        }
        Some("typeall") => { write_ndjson(&args[3], &vh::pure2::type_all(&read_json(&args[2]))); }
        Some("decodeall") => { write_ndjson(&args[3], &vh::pure2::decode_all(&read_json(&args[2]))); }
        Some("map") => { // vh map <fn> <cases.ndjson> <out.ndjson>
            let cases = read_ndjson(&args[3]);
            let f: fn(&Value) -> Value = match args[2].as_str() {
                "schema" => vh::schemax::schema_check, "introspect" => vh::schemax::introspect, "introspect_invariants" => vh::schemax::introspect_invariants, "checker" => vh::schemax::checker_faults, "stubgen" => vh::schemax::stubgen,
                "cand" => pure::cand_case, "typepair" => pure::type_pair, "typeone" => pure::type_one, "valround" => pure::value_roundtrip,
                o => { eprintln!("unknown map fn {o}"); std::process::exit(2) }
            };
            let out: Vec<Value> = cases.iter().map(f).collect();
            write_ndjson(&args[4], &out);
        }
        other => { eprintln!("unknown subcommand {other:?}"); std::process::exit(2); }
    }
}
