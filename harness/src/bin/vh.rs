use std::panic;
use vh::{observe::{observe, Ctx}, read_ndjson, write_ndjson};

fn main() {
    let args: Vec<String> = std::env::args().collect();
    if std::env::var("VH_PANIC_TRACE").is_err() { panic::set_hook(Box::new(|_| {})); }
    let seed: u64 = std::env::var("VERIF_SEED").ok().and_then(|s| s.parse().ok()).unwrap_or(1);
    match args.get(1).map(|s| s.as_str()) {
        Some("observe") => {
            // vh observe <instances.ndjson> <out.ndjson> <modes,comma,separated>
            let insts = read_ndjson(&args[2]);
            let modes: Vec<String> = args.get(4).map(|m| m.split(',').map(|s| s.to_string()).collect()).unwrap_or_default();
            let mut ctx = Ctx::new();
            let out: Vec<_> = insts.iter().map(|i| observe(i, &modes, &mut ctx, seed)).collect();
            write_ndjson(&args[3], &out);
        }
        other => { eprintln!("unknown subcommand {other:?}"); std::process::exit(2); }
    }
}
