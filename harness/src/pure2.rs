//! Bulk replays: all pairs of the TLC-dumped types (C17, C16) and value x target decoding (C18).
use std::{collections::BTreeMap, panic::{self, AssertUnwindSafe}, sync::Arc};

use serde::de::DeserializeOwned;
use serde_json::{json, Value};
use trustfall_core::{
    ir::{verif_hooks as th, FieldValue, Type},
    TryIntoStruct,
};

use crate::{irx::type_json, pure::ty_of, val::{chars, limbs, panic_msg, to_fv}};

fn guard<F: FnOnce() -> Value>(f: F) -> Value {
    panic::catch_unwind(AssertUnwindSafe(f)).unwrap_or_else(|p| json!({"t":"panic","msg": panic_msg(p)}))
}

fn tokens(text: &str) -> Vec<String> {
    let mut out = vec![]; let mut cur = String::new();
    for c in text.chars() {
        if c == '[' || c == ']' || c == '!' { if !cur.is_empty() { out.push(std::mem::take(&mut cur)); } out.push(c.to_string()); } else { cur.push(c); }
    }
    if !cur.is_empty() { out.push(cur); }
    out
}

/// input {"types":[..], "values":[..]}; one output line per type i
pub fn type_all(input: &Value) -> Vec<Value> {
    let tys: Vec<Value> = input["types"].as_array().unwrap().clone();
    let vals: Vec<Value> = input["values"].as_array().unwrap().clone();
    let mut out = vec![];
    for (i, tj) in tys.iter().enumerate() {
        let line = guard(|| {
            let a = ty_of(tj);
            let text = a.to_string();
            let parse_back = Type::parse(&text).ok().as_ref() == Some(&a);
            let sj = serde_json::to_string(&a).unwrap();
            let json_back = serde_json::from_str::<Type>(&sj).ok().as_ref() == Some(&a);
            let sr = ron::to_string(&a).unwrap();
            let ron_back = ron::from_str::<Type>(&sr).ok().as_ref() == Some(&a);
            let fits: Vec<Value> = vals.iter().map(|v| guard(|| json!(a.is_valid_value(&to_fv(v))))).collect();
            let mut inter = vec![]; let mut sub = vec![]; let mut eqi = vec![];
            for bj in tys.iter() {
                let b = ty_of(bj);
                inter.push(guard(|| a.intersect(&b).map(|t| { let j = type_json(&t); json!({"base": j["base"], "mods": j["mods"]}) }).unwrap_or(json!({"base":"","mods":[]}))));
                sub.push(guard(|| json!(th::is_scalar_only_subtype(&a, &b))));     // b is a subtype of a
                eqi.push(guard(|| json!(th::equal_ignoring_nullability(&a, &b))));
            }
            json!({"i": i + 1, "text": text, "tokens": tokens(&text), "parseBack": parse_back, "jsonBack": json_back, "ronBack": ron_back,
                   "nullable": a.nullable(), "orderable": th::is_orderable(&a), "fits": fits, "inter": inter, "sub": sub, "eqIgn": eqi})
        });
        out.push(line);
    }
    out
}

// ------------------------------------------------------------------ C18
trait ToVal { fn to_val(&self) -> Value; }
macro_rules! int_toval { ($($t:ty => $r:expr),*) => { $(impl ToVal for $t { fn to_val(&self) -> Value { json!({"k":"int","r": $r,"v": limbs(*self as i128)}) } })* } }
int_toval!(i8 => "i", i16 => "i", i32 => "i", i64 => "i", u8 => "u", u16 => "u", u32 => "u", u64 => "u");
fn float_val(f: f64) -> Value { let d = f * 2.0; if d.fract() == 0.0 && d.abs() < 1e9 { json!({"k":"float","v": d as i64}) } else { json!({"k":"floatx","bits": format!("{:e}", f), "int": if f.fract() == 0.0 && f.abs() < 3.5e19 { limbs(f as i128) } else { json!([]) }}) } }
impl ToVal for f64 { fn to_val(&self) -> Value { float_val(*self) } }
impl ToVal for f32 { fn to_val(&self) -> Value { float_val(*self as f64) } }
impl ToVal for bool { fn to_val(&self) -> Value { json!({"k":"bool","v": self}) } }
impl ToVal for String { fn to_val(&self) -> Value { json!({"k":"str","v": chars(self)}) } }
impl<T: ToVal> ToVal for Option<T> { fn to_val(&self) -> Value { match self { None => json!({"k":"null"}), Some(x) => x.to_val() } } }
impl<T: ToVal> ToVal for Vec<T> { fn to_val(&self) -> Value { json!({"k":"list","v": self.iter().map(|x| x.to_val()).collect::<Vec<_>>()}) } }
impl<A: ToVal, B: ToVal, C: ToVal> ToVal for (A, B, C) { fn to_val(&self) -> Value { json!({"k":"list","v": [self.0.to_val(), self.1.to_val(), self.2.to_val()]}) } }
impl<T: ToVal> ToVal for [T; 2] { fn to_val(&self) -> Value { json!({"k":"list","v": [self[0].to_val(), self[1].to_val()]}) } }
impl<A: ToVal, B: ToVal> ToVal for (A, B) { fn to_val(&self) -> Value { json!({"k":"list","v": [self.0.to_val(), self.1.to_val()]}) } }

#[derive(serde::Deserialize)]
struct One<T> { x: T }

fn dec<T: DeserializeOwned + ToVal>(v: &FieldValue) -> Value {
    guard(|| {
        let mut row: BTreeMap<Arc<str>, FieldValue> = BTreeMap::new();
        row.insert(Arc::from("x"), v.clone());
        match row.try_into_struct::<One<T>>() {
            Ok(s) => json!({"t":"ok","v": s.x.to_val()}),
            Err(e) => json!({"t":"err","msg": e.to_string().chars().take(120).collect::<String>()}),
        }
    })
}

pub const TARGETS: [&str; 23] = ["i8", "i16", "i32", "i64", "u8", "u16", "u32", "u64", "f32", "f64", "bool", "String",
    "Option<i64>", "Option<u8>", "Option<String>", "Vec<i64>", "Vec<Option<i64>>", "(i64,i64)", "Vec<Vec<i64>>", "(i64,i64,i64)", "[i64;2]", "Vec<(i64,i64)>", "Option<(u8,u8)>"];

/// input {"values":[..]}; one output line per value: {"i", "v", "res": {target: outcome}}
pub fn decode_all(input: &Value) -> Vec<Value> {
    let vals: Vec<Value> = input["values"].as_array().unwrap().clone();
    vals.iter().enumerate().map(|(i, vj)| {
        let v = to_fv(vj);
        let res = json!({
            "i8": dec::<i8>(&v), "i16": dec::<i16>(&v), "i32": dec::<i32>(&v), "i64": dec::<i64>(&v),
            "u8": dec::<u8>(&v), "u16": dec::<u16>(&v), "u32": dec::<u32>(&v), "u64": dec::<u64>(&v),
            "f32": dec::<f32>(&v), "f64": dec::<f64>(&v), "bool": dec::<bool>(&v), "String": dec::<String>(&v),
            "Option<i64>": dec::<Option<i64>>(&v), "Option<u8>": dec::<Option<u8>>(&v), "Option<String>": dec::<Option<String>>(&v),
            "Vec<i64>": dec::<Vec<i64>>(&v), "Vec<Option<i64>>": dec::<Vec<Option<i64>>>(&v), "(i64,i64)": dec::<(i64, i64)>(&v), "Vec<Vec<i64>>": dec::<Vec<Vec<i64>>>(&v),
            "(i64,i64,i64)": dec::<(i64, i64, i64)>(&v), "[i64;2]": dec::<[i64; 2]>(&v), "Vec<(i64,i64)>": dec::<Vec<(i64, i64)>>(&v), "Option<(u8,u8)>": dec::<Option<(u8, u8)>>(&v),
        });
        json!({"i": i + 1, "v": vj, "res": res})
    }).collect()
}
