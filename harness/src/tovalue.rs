//! A serde Serializer into `serde_json::Value` that accepts what serde_json refuses: maps with
//! non-string keys are written as `{"$map": [[key, value], ...]}`. Enum variant names are kept
//! (`"Null"`, `{"Int64": 3}`), which `ron::Value` would drop.
use serde::ser::{self, Serialize};
use serde_json::{json, Map, Value};

#[derive(Debug)]
pub struct Error(String);
impl std::fmt::Display for Error { fn fmt(&self, f: &mut std::fmt::Formatter) -> std::fmt::Result { f.write_str(&self.0) } }
impl std::error::Error for Error {}
impl ser::Error for Error { fn custom<T: std::fmt::Display>(msg: T) -> Self { Error(msg.to_string()) } }

pub fn to_value<T: Serialize + ?Sized>(v: &T) -> Value { v.serialize(Ser).unwrap_or_else(|e| json!({"$error": e.to_string()})) }

pub struct Ser;
pub struct SeqSer { items: Vec<Value>, wrap: Option<&'static str> }
pub struct MapSer { items: Vec<Value>, key: Option<Value> }
pub struct StructSer { map: Map<String, Value>, wrap: Option<&'static str> }

impl ser::Serializer for Ser {
    type Ok = Value; type Error = Error;
    type SerializeSeq = SeqSer; type SerializeTuple = SeqSer; type SerializeTupleStruct = SeqSer; type SerializeTupleVariant = SeqSer;
    type SerializeMap = MapSer; type SerializeStruct = StructSer; type SerializeStructVariant = StructSer;
    fn serialize_bool(self, v: bool) -> Result<Value, Error> { Ok(json!(v)) }
    fn serialize_i8(self, v: i8) -> Result<Value, Error> { Ok(json!(v)) }
    fn serialize_i16(self, v: i16) -> Result<Value, Error> { Ok(json!(v)) }
    fn serialize_i32(self, v: i32) -> Result<Value, Error> { Ok(json!(v)) }
    fn serialize_i64(self, v: i64) -> Result<Value, Error> { Ok(json!(v)) }
    fn serialize_u8(self, v: u8) -> Result<Value, Error> { Ok(json!(v)) }
    fn serialize_u16(self, v: u16) -> Result<Value, Error> { Ok(json!(v)) }
    fn serialize_u32(self, v: u32) -> Result<Value, Error> { Ok(json!(v)) }
    fn serialize_u64(self, v: u64) -> Result<Value, Error> { Ok(json!(v)) }
    fn serialize_f32(self, v: f32) -> Result<Value, Error> { Ok(json!(v)) }
    fn serialize_f64(self, v: f64) -> Result<Value, Error> { Ok(json!(v)) }
    fn serialize_char(self, v: char) -> Result<Value, Error> { Ok(json!(v.to_string())) }
    fn serialize_str(self, v: &str) -> Result<Value, Error> { Ok(json!(v)) }
    fn serialize_bytes(self, v: &[u8]) -> Result<Value, Error> { Ok(json!(v)) }
    fn serialize_none(self) -> Result<Value, Error> { Ok(Value::Null) }
    fn serialize_some<T: Serialize + ?Sized>(self, v: &T) -> Result<Value, Error> { v.serialize(Ser) }
    fn serialize_unit(self) -> Result<Value, Error> { Ok(Value::Null) }
    fn serialize_unit_struct(self, _n: &'static str) -> Result<Value, Error> { Ok(Value::Null) }
    fn serialize_unit_variant(self, _n: &'static str, _i: u32, variant: &'static str) -> Result<Value, Error> { Ok(json!(variant)) }
    fn serialize_newtype_struct<T: Serialize + ?Sized>(self, _n: &'static str, v: &T) -> Result<Value, Error> { v.serialize(Ser) }
    fn serialize_newtype_variant<T: Serialize + ?Sized>(self, _n: &'static str, _i: u32, variant: &'static str, v: &T) -> Result<Value, Error> {
        let mut m = Map::new(); m.insert(variant.to_string(), v.serialize(Ser)?); Ok(Value::Object(m))
    }
    fn serialize_seq(self, _len: Option<usize>) -> Result<SeqSer, Error> { Ok(SeqSer { items: vec![], wrap: None }) }
    fn serialize_tuple(self, _len: usize) -> Result<SeqSer, Error> { Ok(SeqSer { items: vec![], wrap: None }) }
    fn serialize_tuple_struct(self, _n: &'static str, _len: usize) -> Result<SeqSer, Error> { Ok(SeqSer { items: vec![], wrap: None }) }
    fn serialize_tuple_variant(self, _n: &'static str, _i: u32, variant: &'static str, _len: usize) -> Result<SeqSer, Error> { Ok(SeqSer { items: vec![], wrap: Some(variant) }) }
    fn serialize_map(self, _len: Option<usize>) -> Result<MapSer, Error> { Ok(MapSer { items: vec![], key: None }) }
    fn serialize_struct(self, _n: &'static str, _len: usize) -> Result<StructSer, Error> { Ok(StructSer { map: Map::new(), wrap: None }) }
    fn serialize_struct_variant(self, _n: &'static str, _i: u32, variant: &'static str, _len: usize) -> Result<StructSer, Error> { Ok(StructSer { map: Map::new(), wrap: Some(variant) }) }
}
impl SeqSer { fn fin(self) -> Value { let a = Value::Array(self.items); match self.wrap { None => a, Some(w) => { let mut m = Map::new(); m.insert(w.to_string(), a); Value::Object(m) } } } }
impl ser::SerializeSeq for SeqSer { type Ok = Value; type Error = Error;
    fn serialize_element<T: Serialize + ?Sized>(&mut self, v: &T) -> Result<(), Error> { self.items.push(v.serialize(Ser)?); Ok(()) }
    fn end(self) -> Result<Value, Error> { Ok(self.fin()) } }
impl ser::SerializeTuple for SeqSer { type Ok = Value; type Error = Error;
    fn serialize_element<T: Serialize + ?Sized>(&mut self, v: &T) -> Result<(), Error> { self.items.push(v.serialize(Ser)?); Ok(()) }
    fn end(self) -> Result<Value, Error> { Ok(self.fin()) } }
impl ser::SerializeTupleStruct for SeqSer { type Ok = Value; type Error = Error;
    fn serialize_field<T: Serialize + ?Sized>(&mut self, v: &T) -> Result<(), Error> { self.items.push(v.serialize(Ser)?); Ok(()) }
    fn end(self) -> Result<Value, Error> { Ok(self.fin()) } }
impl ser::SerializeTupleVariant for SeqSer { type Ok = Value; type Error = Error;
    fn serialize_field<T: Serialize + ?Sized>(&mut self, v: &T) -> Result<(), Error> { self.items.push(v.serialize(Ser)?); Ok(()) }
    fn end(self) -> Result<Value, Error> { Ok(self.fin()) } }
impl ser::SerializeMap for MapSer { type Ok = Value; type Error = Error;
    fn serialize_key<T: Serialize + ?Sized>(&mut self, k: &T) -> Result<(), Error> { self.key = Some(k.serialize(Ser)?); Ok(()) }
    fn serialize_value<T: Serialize + ?Sized>(&mut self, v: &T) -> Result<(), Error> { let k = self.key.take().unwrap_or(Value::Null); self.items.push(json!([k, v.serialize(Ser)?])); Ok(()) }
    fn end(self) -> Result<Value, Error> { Ok(json!({"$map": self.items})) } }
impl StructSer { fn fin(self) -> Value { let o = Value::Object(self.map); match self.wrap { None => o, Some(w) => { let mut m = Map::new(); m.insert(w.to_string(), o); Value::Object(m) } } } }
impl ser::SerializeStruct for StructSer { type Ok = Value; type Error = Error;
    fn serialize_field<T: Serialize + ?Sized>(&mut self, k: &'static str, v: &T) -> Result<(), Error> { self.map.insert(k.to_string(), v.serialize(Ser)?); Ok(()) }
    fn end(self) -> Result<Value, Error> { Ok(self.fin()) } }
impl ser::SerializeStructVariant for StructSer { type Ok = Value; type Error = Error;
    fn serialize_field<T: Serialize + ?Sized>(&mut self, k: &'static str, v: &T) -> Result<(), Error> { self.map.insert(k.to_string(), v.serialize(Ser)?); Ok(()) }
    fn end(self) -> Result<Value, Error> { Ok(self.fin()) } }
