//! Adapter wrappers: scheduled batching (C02), call/contract logging (C05, C21, C14),
//! hint-driven pruning (C04), start-vertex pull counting (C03).
use std::{cell::RefCell, collections::{BTreeMap, BTreeSet, VecDeque}, rc::Rc, sync::Arc};

use serde_json::{json, Value};
use trustfall_core::{
    interpreter::{
        Adapter, AsVertex, CandidateValue, ContextIterator, ContextOutcomeIterator, DataContext,
        ResolveEdgeInfo, ResolveInfo, VertexInfo, VertexIterator,
    },
    ir::{EdgeParameters, FieldValue},
};

use crate::{graph::{G, GA, V}, val::from_fv};

// ------------------------------------------------------------------------------------------------
// Batching: per resolver call (in call order) an `eager` flag (pull `chunk` items inside the call,
// before the iterator is returned) and a chunk size (read-ahead before each yield).
// ------------------------------------------------------------------------------------------------
pub struct Chunked<I: Iterator> { iter: I, buf: VecDeque<I::Item>, chunk: usize }
impl<I: Iterator> Chunked<I> {
    pub fn new(mut iter: I, eager: bool, chunk: usize) -> Self {
        let mut buf = VecDeque::new();
        if eager { buf.extend(iter.by_ref().take(chunk)); }
        Self { iter, buf, chunk }
    }
}
impl<I: Iterator> Iterator for Chunked<I> {
    type Item = I::Item;
    fn next(&mut self) -> Option<I::Item> {
        if let Some(x) = self.buf.pop_front() { return Some(x); }
        let first = self.iter.next();
        if first.is_some() && self.chunk > 1 { self.buf.extend(self.iter.by_ref().take(self.chunk - 1)); }
        first
    }
}

pub type Policy = Vec<(bool, usize)>;
pub fn parse_policy(s: &str) -> Policy {
    s.split(',').filter(|x| !x.is_empty()).map(|x| (x.starts_with('e'), x[1..].parse().unwrap())).collect()
}
pub fn policy_str(p: &Policy) -> String { p.iter().map(|(e, c)| format!("{}{}", if *e { 'e' } else { 'n' }, c)).collect::<Vec<_>>().join(",") }

#[derive(Clone)]
pub struct Batching<A> { pub inner: A, pub policy: Rc<RefCell<VecDeque<(bool, usize)>>>, pub default: (bool, usize), pub ncalls: Rc<RefCell<usize>> }
impl<A> Batching<A> {
    pub fn new(inner: A, policy: &Policy, default: (bool, usize)) -> Self {
        Self { inner, policy: Rc::new(RefCell::new(policy.iter().cloned().collect())), default, ncalls: Rc::new(RefCell::new(0)) }
    }
    fn pol(&self) -> (bool, usize) { *self.ncalls.borrow_mut() += 1; self.policy.borrow_mut().pop_front().unwrap_or(self.default) }
}
impl<'a, A: Adapter<'a> + 'a> Adapter<'a> for Batching<A> {
    type Vertex = A::Vertex;
    fn resolve_starting_vertices(&self, e: &Arc<str>, p: &EdgeParameters, ri: &ResolveInfo) -> VertexIterator<'a, Self::Vertex> {
        let (eager, chunk) = self.pol();
        Box::new(Chunked::new(self.inner.resolve_starting_vertices(e, p, ri), eager, chunk))
    }
    fn resolve_property<X: AsVertex<Self::Vertex> + 'a>(&self, c: ContextIterator<'a, X>, t: &Arc<str>, p: &Arc<str>, ri: &ResolveInfo) -> ContextOutcomeIterator<'a, X, FieldValue> {
        let (eager, chunk) = self.pol();
        Box::new(Chunked::new(self.inner.resolve_property(c, t, p, ri), eager, chunk))
    }
    fn resolve_neighbors<X: AsVertex<Self::Vertex> + 'a>(&self, c: ContextIterator<'a, X>, t: &Arc<str>, e: &Arc<str>, p: &EdgeParameters, ri: &ResolveEdgeInfo) -> ContextOutcomeIterator<'a, X, VertexIterator<'a, Self::Vertex>> {
        let (eager, chunk) = self.pol();
        Box::new(Chunked::new(self.inner.resolve_neighbors(c, t, e, p, ri), eager, chunk))
    }
    fn resolve_coercion<X: AsVertex<Self::Vertex> + 'a>(&self, c: ContextIterator<'a, X>, t: &Arc<str>, to: &Arc<str>, ri: &ResolveInfo) -> ContextOutcomeIterator<'a, X, bool> {
        let (eager, chunk) = self.pol();
        Box::new(Chunked::new(self.inner.resolve_coercion(c, t, to, ri), eager, chunk))
    }
}

// ------------------------------------------------------------------------------------------------
// Scripted: the general order-preserving adapter of spec/Interp.tla with a bounded buffer, driven by
// a schedule that TLC generated (binding A).  One global decision string, consumed in execution order:
//   inside a resolver call (buffer not full, input not ended):  'P' pull one more input | 'R' return the iterator
//   when asked for an element with a non-empty, non-full buffer: 'P' pull one more input | 'Y' yield the head
// Forced moves (empty buffer => pull; full buffer or ended input => yield / return) consume nothing.
// ------------------------------------------------------------------------------------------------
#[derive(Clone, Default)]
pub struct Script { pub s: Rc<RefCell<VecDeque<char>>>, pub mismatches: Rc<RefCell<usize>> }
impl Script {
    pub fn new(text: &str) -> Self { Script { s: Rc::new(RefCell::new(text.chars().collect())), mismatches: Default::default() } }
    fn decide(&self, stop: char) -> bool { // true = pull
        match self.s.borrow_mut().pop_front() {
            Some('P') => true,
            Some(c) if c == stop => false,
            _ => { *self.mismatches.borrow_mut() += 1; false }
        }
    }
    pub fn leftover(&self) -> usize { self.s.borrow().len() }
}
pub struct ScriptedIter<I: Iterator> { iter: I, buf: VecDeque<I::Item>, cap: usize, exh: bool, script: Script }
impl<I: Iterator> ScriptedIter<I> {
    pub fn new(iter: I, cap: usize, script: Script) -> Self {
        let mut me = Self { iter, buf: VecDeque::new(), cap, exh: false, script };
        while me.buf.len() < me.cap && !me.exh && me.script.decide('R') { me.pull(); }
        me
    }
    fn pull(&mut self) { match self.iter.next() { Some(x) => self.buf.push_back(x), None => self.exh = true } }
}
impl<I: Iterator> Iterator for ScriptedIter<I> {
    type Item = I::Item;
    fn next(&mut self) -> Option<I::Item> {
        if self.buf.is_empty() { self.pull(); }
        loop {
            if self.buf.is_empty() { return None; }
            if self.buf.len() < self.cap && !self.exh && self.script.decide('Y') { self.pull(); } else { return self.buf.pop_front(); }
        }
    }
}
#[derive(Clone)]
pub struct Scripted<A> { pub inner: A, pub cap: usize, pub script: Script }
impl<'a, A: Adapter<'a> + 'a> Adapter<'a> for Scripted<A> {
    type Vertex = A::Vertex;
    fn resolve_starting_vertices(&self, e: &Arc<str>, p: &EdgeParameters, ri: &ResolveInfo) -> VertexIterator<'a, Self::Vertex> {
        Box::new(ScriptedIter::new(self.inner.resolve_starting_vertices(e, p, ri), self.cap, self.script.clone()))
    }
    fn resolve_property<X: AsVertex<Self::Vertex> + 'a>(&self, c: ContextIterator<'a, X>, t: &Arc<str>, p: &Arc<str>, ri: &ResolveInfo) -> ContextOutcomeIterator<'a, X, FieldValue> {
        Box::new(ScriptedIter::new(self.inner.resolve_property(c, t, p, ri), self.cap, self.script.clone()))
    }
    fn resolve_neighbors<X: AsVertex<Self::Vertex> + 'a>(&self, c: ContextIterator<'a, X>, t: &Arc<str>, e: &Arc<str>, p: &EdgeParameters, ri: &ResolveEdgeInfo) -> ContextOutcomeIterator<'a, X, VertexIterator<'a, Self::Vertex>> {
        Box::new(ScriptedIter::new(self.inner.resolve_neighbors(c, t, e, p, ri), self.cap, self.script.clone()))
    }
    fn resolve_coercion<X: AsVertex<Self::Vertex> + 'a>(&self, c: ContextIterator<'a, X>, t: &Arc<str>, to: &Arc<str>, ri: &ResolveInfo) -> ContextOutcomeIterator<'a, X, bool> {
        Box::new(ScriptedIter::new(self.inner.resolve_coercion(c, t, to, ri), self.cap, self.script.clone()))
    }
}

// ------------------------------------------------------------------------------------------------
// Counting: how many starting vertices / contexts have been pulled so far (shared counters).
// ------------------------------------------------------------------------------------------------
#[derive(Clone, Default)]
pub struct Counters { pub starts: Rc<RefCell<usize>>, pub start_ids: Rc<RefCell<Vec<u32>>>, pub accesses: Rc<RefCell<usize>> }
#[derive(Clone)]
pub struct Counting { pub inner: GA, pub c: Counters }
impl<'a> Adapter<'a> for Counting {
    type Vertex = V;
    fn resolve_starting_vertices(&self, e: &Arc<str>, p: &EdgeParameters, ri: &ResolveInfo) -> VertexIterator<'a, V> {
        let c = self.c.clone();
        Box::new(self.inner.resolve_starting_vertices(e, p, ri).inspect(move |v| { *c.starts.borrow_mut() += 1; c.start_ids.borrow_mut().push(v.0); *c.accesses.borrow_mut() += 1; }))
    }
    fn resolve_property<X: AsVertex<V> + 'a>(&self, c: ContextIterator<'a, X>, t: &Arc<str>, p: &Arc<str>, ri: &ResolveInfo) -> ContextOutcomeIterator<'a, X, FieldValue> {
        let k = self.c.clone();
        Box::new(self.inner.resolve_property(c, t, p, ri).inspect(move |_| *k.accesses.borrow_mut() += 1))
    }
    fn resolve_neighbors<X: AsVertex<V> + 'a>(&self, c: ContextIterator<'a, X>, t: &Arc<str>, e: &Arc<str>, p: &EdgeParameters, ri: &ResolveEdgeInfo) -> ContextOutcomeIterator<'a, X, VertexIterator<'a, V>> {
        let k = self.c.clone();
        Box::new(self.inner.resolve_neighbors(c, t, e, p, ri).map(move |(ctx, it)| {
            *k.accesses.borrow_mut() += 1;
            let k2 = k.clone();
            let it: VertexIterator<'a, V> = Box::new(it.inspect(move |_| *k2.accesses.borrow_mut() += 1));
            (ctx, it)
        }))
    }
    fn resolve_coercion<X: AsVertex<V> + 'a>(&self, c: ContextIterator<'a, X>, t: &Arc<str>, to: &Arc<str>, ri: &ResolveInfo) -> ContextOutcomeIterator<'a, X, bool> {
        let k = self.c.clone();
        Box::new(self.inner.resolve_coercion(c, t, to, ri).inspect(move |_| *k.accesses.borrow_mut() += 1))
    }
}

// ------------------------------------------------------------------------------------------------
// CallLog: records every resolver call with everything the adapter contract speaks about.
// ------------------------------------------------------------------------------------------------
#[derive(Clone, Default)]
pub struct CallLogState { pub calls: Rc<RefCell<Vec<Value>>>, pub active: Rc<RefCell<Vec<BTreeSet<String>>>>, pub seq: Rc<RefCell<Vec<Value>>> }
#[derive(Clone)]
pub struct CallLog { pub inner: GA, pub st: CallLogState }
fn params_json(p: &EdgeParameters) -> Value { Value::Array(p.iter().map(|(k, v)| json!([k.as_ref(), from_fv(v)])).collect()) }
fn required_json(ri: &dyn VertexInfo) -> Value { let mut v: Vec<String> = ri.required_properties().map(|r| r.name.to_string()).collect(); v.sort(); v.dedup(); json!(v) }
impl CallLog {
    fn push(&self, rec: Value) -> usize { let mut c = self.st.calls.borrow_mut(); c.push(rec); self.st.active.borrow_mut().push(BTreeSet::new()); c.len() - 1 }
    fn note<X: AsVertex<V>>(&self, idx: usize, ctx: &DataContext<X>) {
        let t = match ctx.active_vertex::<V>() { Some(v) => self.inner.g.ty[&v.0].clone(), None => "".to_string() };
        self.st.seq.borrow_mut().push(json!([idx + 1, ctx.active_vertex::<V>().map(|v| v.0).unwrap_or(0)]));
        self.st.active.borrow_mut()[idx].insert(t);
    }
    pub fn finish(&self) -> Vec<Value> {
        let calls = self.st.calls.borrow(); let act = self.st.active.borrow();
        calls.iter().zip(act.iter()).map(|(c, a)| { let mut c = c.clone(); c["active"] = json!(a.iter().filter(|x| !x.is_empty()).collect::<Vec<_>>()); c }).collect()
    }
}
impl<'a> Adapter<'a> for CallLog {
    type Vertex = V;
    fn resolve_starting_vertices(&self, e: &Arc<str>, p: &EdgeParameters, ri: &ResolveInfo) -> VertexIterator<'a, V> {
        self.push(json!({"fn":"start","type":"","field": e.as_ref(),"to":"","params": params_json(p),"vid": crate::val::idn(&ri.vid()),"required": required_json(ri)}));
        self.inner.resolve_starting_vertices(e, p, ri)
    }
    fn resolve_property<X: AsVertex<V> + 'a>(&self, c: ContextIterator<'a, X>, t: &Arc<str>, p: &Arc<str>, ri: &ResolveInfo) -> ContextOutcomeIterator<'a, X, FieldValue> {
        let idx = self.push(json!({"fn":"prop","type": t.as_ref(),"field": p.as_ref(),"to":"","params": [],"vid": crate::val::idn(&ri.vid()),"required": required_json(ri)}));
        let me = self.clone();
        self.inner.resolve_property(Box::new(c.inspect(move |ctx| me.note(idx, ctx))), t, p, ri)
    }
    fn resolve_neighbors<X: AsVertex<V> + 'a>(&self, c: ContextIterator<'a, X>, t: &Arc<str>, e: &Arc<str>, p: &EdgeParameters, ri: &ResolveEdgeInfo) -> ContextOutcomeIterator<'a, X, VertexIterator<'a, V>> {
        let idx = self.push(json!({"fn":"nbrs","type": t.as_ref(),"field": e.as_ref(),"to":"","params": params_json(p),"vid": crate::val::idn(&ri.origin_vid()),
            "dest": crate::val::idn(&ri.destination_vid()), "required": required_json(&ri.destination())}));
        let me = self.clone();
        self.inner.resolve_neighbors(Box::new(c.inspect(move |ctx| me.note(idx, ctx))), t, e, p, ri)
    }
    fn resolve_coercion<X: AsVertex<V> + 'a>(&self, c: ContextIterator<'a, X>, t: &Arc<str>, to: &Arc<str>, ri: &ResolveInfo) -> ContextOutcomeIterator<'a, X, bool> {
        let idx = self.push(json!({"fn":"coerce","type": t.as_ref(),"field":"","to": to.as_ref(),"params": [],"vid": crate::val::idn(&ri.vid()),"required": required_json(ri)}));
        let me = self.clone();
        self.inner.resolve_coercion(Box::new(c.inspect(move |ctx| me.note(idx, ctx))), t, to, ri)
    }
}

// ------------------------------------------------------------------------------------------------
// Pruning: discards vertices that the hints say cannot contribute (C04). Every hint consulted is
// also logged with the candidate so that TLC can judge containment against Sem's bindings.
// ------------------------------------------------------------------------------------------------
pub fn cand_json(c: &CandidateValue<FieldValue>) -> Value {
    use std::ops::Bound;
    let b = |b: Bound<&FieldValue>| match b { Bound::Unbounded => json!({"t":"unb"}), Bound::Included(v) => json!({"t":"inc","v": from_fv(v)}), Bound::Excluded(v) => json!({"t":"exc","v": from_fv(v)}) };
    match c {
        CandidateValue::Impossible => json!({"t":"impossible"}),
        CandidateValue::Single(v) => json!({"t":"single","v": from_fv(v)}),
        CandidateValue::Multiple(vs) => json!({"t":"multiple","vs": vs.iter().map(from_fv).collect::<Vec<_>>()}),
        CandidateValue::Range(r) => json!({"t":"range","lo": b(r.start_bound()),"hi": b(r.end_bound()),"nullIncl": r.null_included()}),
        CandidateValue::All => json!({"t":"all"}),
        _ => json!({"t":"unknown"}),
    }
}
/// Membership test written independently of `CandidateValue`'s own helpers (uses numeric compare on ints, bytes on strings).
pub fn my_cmp(a: &FieldValue, b: &FieldValue) -> Option<std::cmp::Ordering> {
    use crate::graph::num;
    match (num(a), num(b)) { (Some(x), Some(y)) => return Some(x.cmp(&y)), _ => {} }
    match (a, b) {
        (FieldValue::String(x), FieldValue::String(y)) => Some(x.as_bytes().cmp(y.as_bytes())),
        (FieldValue::Float64(x), FieldValue::Float64(y)) => x.partial_cmp(y),
        (FieldValue::Boolean(x), FieldValue::Boolean(y)) => Some(x.cmp(y)),
        // lists order lexicographically (Values!TotalLess): first differing element decides, a proper prefix is smaller
        (FieldValue::List(x), FieldValue::List(y)) => {
            for (p, q) in x.iter().zip(y.iter()) {
                match (p, q) {
                    (FieldValue::Null, FieldValue::Null) => continue,
                    (FieldValue::Null, _) => return Some(std::cmp::Ordering::Less),
                    (_, FieldValue::Null) => return Some(std::cmp::Ordering::Greater),
                    _ => {}
                }
                match my_cmp(p, q)? { std::cmp::Ordering::Equal => continue, o => return Some(o) }
            }
            Some(x.len().cmp(&y.len()))
        }
        _ => None,
    }
}
pub fn my_eq(a: &FieldValue, b: &FieldValue) -> bool {
    match (a, b) {
        (FieldValue::Null, FieldValue::Null) => true,
        (FieldValue::List(x), FieldValue::List(y)) => x.len() == y.len() && x.iter().zip(y.iter()).all(|(p, q)| my_eq(p, q)),
        (FieldValue::Enum(x), FieldValue::Enum(y)) => x == y,
        _ => my_cmp(a, b) == Some(std::cmp::Ordering::Equal),
    }
}
pub fn cand_contains(c: &CandidateValue<FieldValue>, x: &FieldValue) -> bool {
    use std::{cmp::Ordering::*, ops::Bound};
    match c {
        CandidateValue::Impossible => false,
        CandidateValue::Single(v) => my_eq(v, x),
        CandidateValue::Multiple(vs) => vs.iter().any(|v| my_eq(v, x)),
        CandidateValue::Range(r) => {
            if matches!(x, FieldValue::Null) { return r.null_included(); }
            let lo = match r.start_bound() { Bound::Unbounded => true, Bound::Included(v) => matches!(my_cmp(v, x), Some(Less | Equal)), Bound::Excluded(v) => matches!(my_cmp(v, x), Some(Less)) };
            let hi = match r.end_bound() { Bound::Unbounded => true, Bound::Included(v) => matches!(my_cmp(x, v), Some(Less | Equal)), Bound::Excluded(v) => matches!(my_cmp(x, v), Some(Less)) };
            lo && hi
        }
        CandidateValue::All => true,
        _ => true,
    }
}

#[derive(Clone, Default)]
pub struct PruneStats { pub stat: Rc<RefCell<[usize; 4]>>, pub hints: Rc<RefCell<Vec<Value>>> } // static, mandatory, dynamic, pruned
#[derive(Clone)]
pub struct Pruning { pub inner: GA, pub props: Arc<Vec<String>>, pub edges: Arc<Vec<String>>, pub st: PruneStats, pub depth: usize }

fn keep_static(g: &G, props: &[String], edges: &[String], id: u32, info: &dyn VertexInfo, depth: usize, st: &PruneStats, site: &str) -> bool {
    for p in props {
        if let Some(c) = info.statically_required_property(p) {
            st.stat.borrow_mut()[0] += 1;
            if let Some(x) = g.prop(id, p) {
                let ok = cand_contains(&c, &x);
                if st.hints.borrow().len() < 1500 { st.hints.borrow_mut().push(json!({"kind":"static","site": site,"vid": crate::val::idn(&info.vid()),"prop": p,"cand": cand_json(&c),"vertex": id,"value": from_fv(&x),"kept": ok})); }
                if !ok { return false; }
            }
        }
    }
    if depth > 0 {
        for e in edges {
            for einfo in info.mandatory_edges_with_name(e) {
                st.stat.borrow_mut()[1] += 1;
                let dest = einfo.destination().clone();
                let ns = g.nbrs(id, e, einfo.parameters());
                let ok = ns.into_iter().any(|z| keep_static(g, props, edges, z, &dest, depth - 1, st, site));
                if st.hints.borrow().len() < 1500 { st.hints.borrow_mut().push(json!({"kind":"mandatory","site": site,"vid": crate::val::idn(&info.vid()),"edge": e,"vertex": id,"kept": ok})); }
                if !ok { return false; }
            }
        }
    }
    true
}

impl<'a> Adapter<'a> for Pruning {
    type Vertex = V;
    fn resolve_starting_vertices(&self, e: &Arc<str>, p: &EdgeParameters, ri: &ResolveInfo) -> VertexIterator<'a, V> {
        let me = self.clone(); let ri2 = ri.clone();
        Box::new(self.inner.resolve_starting_vertices(e, p, ri).filter(move |v| {
            let k = keep_static(&me.inner.g, &me.props, &me.edges, v.0, &ri2, me.depth, &me.st, "start");
            if !k { me.st.stat.borrow_mut()[3] += 1; }
            k
        }))
    }
    fn resolve_property<X: AsVertex<V> + 'a>(&self, c: ContextIterator<'a, X>, t: &Arc<str>, p: &Arc<str>, ri: &ResolveInfo) -> ContextOutcomeIterator<'a, X, FieldValue> { self.inner.resolve_property(c, t, p, ri) }
    fn resolve_coercion<X: AsVertex<V> + 'a>(&self, c: ContextIterator<'a, X>, t: &Arc<str>, to: &Arc<str>, ri: &ResolveInfo) -> ContextOutcomeIterator<'a, X, bool> { self.inner.resolve_coercion(c, t, to, ri) }
    fn resolve_neighbors<X: AsVertex<V> + 'a>(&self, c: ContextIterator<'a, X>, t: &Arc<str>, e: &Arc<str>, p: &EdgeParameters, ri: &ResolveEdgeInfo) -> ContextOutcomeIterator<'a, X, VertexIterator<'a, V>> {
        let dest = ri.destination();
        // dynamic candidates, resolved per context (this wrapper is not lazy; C04 is about result bags)
        let mut ctxs: Vec<(DataContext<X>, Vec<(String, CandidateValue<FieldValue>)>)> = c.map(|x| (x, vec![])).collect();
        for pn in self.props.iter() {
            if let Some(d) = dest.dynamically_required_property(pn) {
                self.st.stat.borrow_mut()[2] += 1;
                let (cs, mut acc): (Vec<_>, Vec<_>) = ctxs.into_iter().unzip();
                let resolved: Vec<(DataContext<X>, CandidateValue<FieldValue>)> = d.resolve(&self.inner, Box::new(cs.into_iter())).collect();
                ctxs = resolved.into_iter().zip(acc.drain(..)).map(|((ctx, cand), mut a)| { a.push((pn.clone(), cand)); (ctx, a) }).collect();
            }
        }
        let (cs, cands): (Vec<_>, Vec<_>) = ctxs.into_iter().unzip();
        let me = self.clone();
        let site = format!("nbrs:{}", crate::val::idn(&ri.eid()));
        let inner_iter = self.inner.resolve_neighbors(Box::new(cs.into_iter()), t, e, p, ri);
        Box::new(inner_iter.zip(cands).map(move |((ctx, ns), cand)| {
            let me = me.clone(); let dest = dest.clone(); let site = site.clone();
            let src: u32 = ctx.active_vertex::<V>().map(|v| v.0).unwrap_or(0);
            let it: VertexIterator<'a, V> = Box::new(ns.filter(move |v| {
                let mut k = keep_static(&me.inner.g, &me.props, &me.edges, v.0, &dest, me.depth, &me.st, &site);
                for (pn, c) in &cand {
                    if let Some(x) = me.inner.g.prop(v.0, pn) {
                        let ok = cand_contains(c, &x);
                        if me.st.hints.borrow().len() < 1500 { me.st.hints.borrow_mut().push(json!({"kind":"dynamic","site": site,"vid": crate::val::idn(&dest.vid()),"prop": pn,"cand": cand_json(c),"vertex": v.0,"src": src,"value": from_fv(&x),"kept": ok})); }
                        if !ok { k = false; }
                    }
                }
                if !k { me.st.stat.borrow_mut()[3] += 1; }
                k
            }));
            (ctx, it)
        }))
    }
}

pub fn names_of(inst: &Value) -> (Vec<String>, Vec<String>) {
    let mut props = BTreeSet::new(); let mut edges = BTreeSet::new();
    if let Some(ts) = inst["schema"]["types"].as_object() {
        for (_, t) in ts {
            if let Some(p) = t["props"].as_object() { props.extend(p.keys().cloned()); }
            if let Some(e) = t["edges"].as_object() { edges.extend(e.keys().cloned()); }
        }
    }
    props.insert("__typename".into());
    (props.into_iter().collect(), edges.into_iter().collect())
}

pub type Row = BTreeMap<Arc<str>, FieldValue>;
