//! C24 binding A: one Arc<Schema> and Arc<IndexedQuery> per instance shared by N threads released by a barrier in a FRESH process
//! (so that the OnceLock statics are initialised under contention); each thread compiles and executes and compares with the
//! sequential results computed afterwards on the main thread. Requires Schema / IndexedQuery: Send + Sync to compile at all.
use std::{collections::BTreeMap, panic::{self, AssertUnwindSafe}, sync::{Arc, Barrier}, thread};

use serde_json::{json, Value};
use trustfall_core::{frontend::parse, interpreter::execution::interpret_ir, ir::{FieldValue, IndexedQuery}, schema::Schema};

use crate::{graph::{G, GA}, observe::args_of, val::{panic_msg, row_json}};

fn assert_send_sync<T: Send + Sync>() {}

type Rows = Vec<BTreeMap<Arc<str>, FieldValue>>;
const REPEATS: usize = 6;
fn exec(iq: &Arc<IndexedQuery>, inst: &Value) -> Result<Rows, String> {
    let mut args = args_of(inst);
    args.retain(|k, _| iq.ir_query.variables.contains_key(k));
    let ga = GA { g: Arc::new(G::from_inst(inst)) };
    interpret_ir(Arc::new(ga), iq.clone(), Arc::new(args)).map(|it| it.take(5001).collect()).map_err(|e| format!("{e:?}"))
}

pub fn run(insts: &[Value], nthreads: usize) -> Value {
    assert_send_sync::<Schema>(); assert_send_sync::<IndexedQuery>(); assert_send_sync::<Arc<Schema>>(); assert_send_sync::<Arc<IndexedQuery>>();
    assert_send_sync::<trustfall_core::ir::IRQuery>(); assert_send_sync::<FieldValue>(); assert_send_sync::<trustfall_core::ir::Type>();
    // NOTE: nothing of trustfall runs before the threads start, so that every lazily initialised static is raced for.
    let insts: Arc<Vec<Value>> = Arc::new(insts.to_vec());
    let sdl = insts[0]["sdl"].as_str().unwrap().to_string();
    let barrier = Arc::new(Barrier::new(nthreads));
    let shared_schema: Arc<std::sync::OnceLock<Arc<Schema>>> = Arc::new(std::sync::OnceLock::new());
    let shared_queries: Arc<Vec<std::sync::OnceLock<Option<Arc<IndexedQuery>>>>> = Arc::new((0..insts.len()).map(|_| std::sync::OnceLock::new()).collect());
    let mut handles = vec![];
    for t in 0..nthreads {
        let (insts, barrier, sdl, shared_schema, shared_queries) = (insts.clone(), barrier.clone(), sdl.clone(), shared_schema.clone(), shared_queries.clone());
        handles.push(thread::spawn(move || {
            barrier.wait();
            panic::catch_unwind(AssertUnwindSafe(|| {
                // every thread parses the schema itself (racing for the statics) but all share the first one published
                let mine = Arc::new(Schema::parse(&sdl).expect("schema"));
                let schema = shared_schema.get_or_init(|| mine).clone();
                let mut out: Vec<Value> = vec![Value::Null; insts.len()];
                let mut shared_iq: Vec<Option<Arc<IndexedQuery>>> = vec![None; insts.len()];
                // every thread walks the queries in its own rotation, so that DIFFERENT queries (and different rows of the same query)
                // are in flight at the same moment; each shared compiled query is then executed several more times
                let n = insts.len();
                for j in 0..n {
                    let k = (j + t * 5) % n; let inst = &insts[k];
                    let text = inst["text"].as_str().unwrap();
                    // compile concurrently against the shared schema ...
                    let own = parse(&schema, text);
                    let own_ser = match &own { Ok(iq) => serde_json::to_string(&iq.ir_query).unwrap(), Err(e) => format!("ERR {e:?}") };
                    // ... and execute the compiled query that is shared between all threads
                    let shared = shared_queries[k].get_or_init(|| own.as_ref().ok().cloned()).clone();
                    let rows = match &shared { Some(iq) => exec(iq, inst).map(|r| r.iter().map(row_json).collect::<Vec<_>>()), None => Err("rejected".to_string()) };
                    out[k] = json!({"ir": own_ser, "rows": match rows { Ok(r) => json!(r), Err(e) => json!({"err": e}) }, "again": []});
                    shared_iq[k] = shared;
                    if t % 2 == 1 { thread::yield_now(); }
                }
                for round in 0..REPEATS {
                    for j in 0..n {
                        let k = (j * 7 + t * 3 + round) % n;
                        if let Some(iq) = &shared_iq[k] {
                            let rows = exec(iq, &insts[k]).map(|r| r.iter().map(row_json).collect::<Vec<_>>());
                            out[k]["again"].as_array_mut().unwrap().push(match rows { Ok(r) => json!(r), Err(e) => json!({"err": e}) });
                        }
                    }
                }
                out
            })).map_err(panic_msg)
        }));
    }
    let per_thread: Vec<Result<Vec<Value>, String>> = handles.into_iter().map(|h| h.join().unwrap_or_else(|_| Err("thread panicked outside catch_unwind".into()))).collect();
    // sequential reference, computed afterwards on this thread
    let schema = Schema::parse(&sdl).expect("schema");
    let mut bad = vec![];
    let mut nexec = 0usize;
    for (k, inst) in insts.iter().enumerate() {
        let text = inst["text"].as_str().unwrap();
        let seq = parse(&schema, text);
        let seq_ser = match &seq { Ok(iq) => serde_json::to_string(&iq.ir_query).unwrap(), Err(e) => format!("ERR {e:?}") };
        let seq_rows = match &seq { Ok(iq) => exec(iq, inst).map(|r| r.iter().map(row_json).collect::<Vec<_>>()), Err(_) => Err("rejected".to_string()) };
        let seq_rows = match seq_rows { Ok(r) => { nexec += 1; json!(r) } Err(e) => json!({"err": e}) };
        for (t, res) in per_thread.iter().enumerate() {
            match res {
                Err(p) => { if k == 0 { bad.push(json!({"thread": t, "what": "panic", "err": p})); } }
                Ok(v) => {
                    if v[k]["ir"].as_str().unwrap() != seq_ser { bad.push(json!({"thread": t, "inst": inst["id"], "what": "compiled query differs from the sequential one", "text": text})); }
                    else if v[k]["rows"] != seq_rows || v[k]["again"].as_array().unwrap().iter().any(|r| *r != seq_rows) {
                        bad.push(json!({"thread": t, "inst": inst["id"], "what": "rows differ from the sequential run", "text": text}));
                    }
                }
            }
        }
    }
    json!({"threads": nthreads, "instances": insts.len(), "executed": nexec, "bad": bad})
}
