//! Instance graphs and the reference `GraphAdapter` (lazy, no read-ahead, contract-abiding).
use std::{collections::BTreeMap, sync::Arc};

use serde_json::Value;
use trustfall_core::{
    interpreter::{
        Adapter, AsVertex, ContextIterator, ContextOutcomeIterator, ResolveEdgeInfo, ResolveInfo,
        VertexIterator,
    },
    ir::{EdgeParameters, FieldValue},
};

use crate::val::to_fv;

#[derive(Debug, Clone, PartialEq, Eq, serde::Serialize, serde::Deserialize)]
pub struct V(pub u32);

/// Numeric value of an integer field value, independent of the code under test's comparisons.
pub fn num(v: &FieldValue) -> Option<i128> {
    match v {
        FieldValue::Int64(x) => Some(*x as i128),
        FieldValue::Uint64(x) => Some(*x as i128),
        _ => None,
    }
}

#[derive(Debug, Default)]
pub struct G {
    pub ty: BTreeMap<u32, String>,
    pub props: BTreeMap<u32, BTreeMap<String, FieldValue>>,
    pub adj: BTreeMap<String, Vec<(u32, u32)>>,
    pub entry: BTreeMap<String, Vec<u32>>,
    /// transitive supertypes per concrete type name (from the instance's abstract schema)
    pub supers: BTreeMap<String, Vec<String>>,
}

impl G {
    pub fn from_inst(inst: &Value) -> G {
        let mut out = G::from_json(&inst["g"]);
        if let Some(ts) = inst["schema"]["types"].as_object() {
            for (k, t) in ts {
                out.supers.insert(k.clone(), t["supers"].as_array().map(|a| a.iter().map(|x| x.as_str().unwrap().to_string()).collect()).unwrap_or_default());
            }
        }
        out
    }

    pub fn from_json(g: &Value) -> G {
        let mut out = G::default();
        for v in g["verts"].as_array().unwrap() {
            let id = v["id"].as_u64().unwrap() as u32;
            out.ty.insert(id, v["ty"].as_str().unwrap().to_string());
            out.props.insert(id, v["props"].as_object().unwrap().iter().map(|(k, x)| (k.clone(), to_fv(x))).collect());
        }
        for (k, l) in g["adj"].as_object().unwrap() {
            out.adj.insert(k.clone(), l.as_array().unwrap().iter().map(|p| (p[0].as_u64().unwrap() as u32, p[1].as_u64().unwrap() as u32)).collect());
        }
        for (k, l) in g["entry"].as_object().unwrap() {
            out.entry.insert(k.clone(), l.as_array().unwrap().iter().map(|x| x.as_u64().unwrap() as u32).collect());
        }
        out
    }

    pub fn prop(&self, id: u32, p: &str) -> Option<FieldValue> {
        if p == "__typename" { Some(self.ty[&id].as_str().into()) } else { self.props[&id].get(p).cloned() }
    }

    /// Dataset semantics of edges: a non-null `min` parameter keeps targets with `val >= min`.
    pub fn nbrs(&self, id: u32, e: &str, params: &EdgeParameters) -> Vec<u32> {
        let min = params.get("min").cloned();
        self.adj.get(e).map(|l| l.as_slice()).unwrap_or(&[]).iter().filter(|(f, _)| *f == id).map(|(_, t)| *t).filter(|t| match &min {
            None | Some(FieldValue::Null) => true,
            Some(m) => match (self.props[t].get("val").and_then(num), num(m)) { (Some(x), Some(m)) => x >= m, _ => false },
        }).collect()
    }

    /// Entry points: the instance lists the ids per entry name; a non-null `min` keeps ids >= min.
    pub fn starts(&self, e: &str, params: &EdgeParameters) -> Vec<u32> {
        let min = params.get("min").cloned();
        self.entry.get(e).cloned().unwrap_or_default().into_iter().filter(|i| match &min {
            None | Some(FieldValue::Null) => true,
            Some(m) => num(m).map(|m| *i as i128 >= m).unwrap_or(false),
        }).collect()
    }
}

#[derive(Clone)]
pub struct GA {
    pub g: Arc<G>,
}

impl GA {
    pub fn can_coerce(&self, id: u32, to: &str) -> bool {
        let ty = &self.g.ty[&id];
        ty == to || self.g.supers.get(ty).map(|s| s.iter().any(|x| x == to)).unwrap_or(false)
    }
}

impl<'a> Adapter<'a> for GA {
    type Vertex = V;

    fn resolve_starting_vertices(&self, e: &Arc<str>, p: &EdgeParameters, _ri: &ResolveInfo) -> VertexIterator<'a, V> {
        Box::new(self.g.starts(e, p).into_iter().map(V))
    }

    fn resolve_property<X: AsVertex<V> + 'a>(&self, c: ContextIterator<'a, X>, _t: &Arc<str>, p: &Arc<str>, _ri: &ResolveInfo) -> ContextOutcomeIterator<'a, X, FieldValue> {
        let g = self.g.clone();
        let p = p.clone();
        Box::new(c.map(move |ctx| {
            let v = match ctx.active_vertex::<V>() {
                None => FieldValue::Null,
                Some(v) => g.prop(v.0, &p).unwrap_or_else(|| panic!("GraphAdapter: no property {p} on vertex of type {}", g.ty[&v.0])),
            };
            (ctx, v)
        }))
    }

    fn resolve_neighbors<X: AsVertex<V> + 'a>(&self, c: ContextIterator<'a, X>, _t: &Arc<str>, e: &Arc<str>, p: &EdgeParameters, _ri: &ResolveEdgeInfo) -> ContextOutcomeIterator<'a, X, VertexIterator<'a, V>> {
        let g = self.g.clone();
        let e = e.clone();
        let p = p.clone();
        Box::new(c.map(move |ctx| {
            let n: VertexIterator<'a, V> = match ctx.active_vertex::<V>() {
                None => Box::new(std::iter::empty()),
                Some(v) => Box::new(g.nbrs(v.0, &e, &p).into_iter().map(V)),
            };
            (ctx, n)
        }))
    }

    fn resolve_coercion<X: AsVertex<V> + 'a>(&self, c: ContextIterator<'a, X>, _t: &Arc<str>, to: &Arc<str>, _ri: &ResolveInfo) -> ContextOutcomeIterator<'a, X, bool> {
        let me = self.clone();
        let to = to.clone();
        Box::new(c.map(move |ctx| {
            let b = match ctx.active_vertex::<V>() {
                None => false,
                Some(v) => me.can_coerce(v.0, &to),
            };
            (ctx, b)
        }))
    }
}
