"""C10 input space: query documents built from (a) every directive sequence the DirectiveFSM reaches (on an edge field, a
property field and the root field), (b) a flat catalogue of malformed single directives, (c) document shapes (operations,
fragments, variable definitions, root selections, inline fragments), (d) edge-parameter literals, (e) naming and nesting cases."""
from lib import *

def render_dir(d, k, ctx):
    """a well-formed directive of each kind; ctx in {'edge','prop','root','count'}"""
    if d == "filter":
        return '@filter(op: ">=", value: ["$n"])' if ctx in ("edge", "count", "root") else '@filter(op: "=", value: ["$v"])'
    if d == "output": return f'@output(name: "o{k}")'
    if d == "tag": return f'@tag(name: "t{k}")'
    if d == "transform": return '@transform(op: "count")'
    if d == "optional": return "@optional"
    if d == "recurse": return "@recurse(depth: 2)"
    if d == "fold": return "@fold"
    return "@bogus"

def seq_documents(seqs):
    """seqs: list of (directive names, predicted parse class, retransform)"""
    out = []
    for seq, cls, retr in seqs:
        for pos in ("edge", "prop", "root"):
            ds = " ".join(render_dir(d, k, pos) for k, d in enumerate(seq))
            if pos == "edge": text = "{ Nodes { id @output(name: \"rid\") next %s { id @output(name: \"x\") } } }" % ds
            elif pos == "prop": text = "{ Nodes { id @output(name: \"rid\") val %s } }" % ds
            else: text = "{ Nodes %s { id @output(name: \"rid\") } }" % ds
            out.append({"text": text, "cls": {"family": "dirseq", "pos": pos, "seq": list(seq), "predicted": cls, "retransform": retr}})
    return out

MALFORMED = [
    '@filter', '@filter()', '@filter(op: "=")', '@filter(value: ["$v"])', '@filter(op: "=", value: "$v")', '@filter(op: "=", value: [])', '@filter(op: "=", value: ["$v", "$w"])',
    '@filter(op: "=", value: ["v"])', '@filter(op: "=", value: ["$"])', '@filter(op: "=", value: ["%"])', '@filter(op: "=", value: ["$1x"])', '@filter(op: "=", value: ["$a-b"])', '@filter(op: "=", value: [""])', '@filter(op: "=", value: ["émile"])', '@filter(op: "=", value: ["é"])', '@filter(op: "=", value: ["$é"])', '@filter(op: "=", value: ["%ü"])', '@filter(op: "=", value: ["$vé"])',
    '@filter(op: "é", value: ["$v"])', '@output(name: "é")', '@tag(name: "ü")', '@output(name: "日本")',
    '@filter(op: "=", value: [1])', '@filter(op: "=", value: [null])', '@filter(op: 1, value: ["$v"])', '@filter(op: "nope", value: ["$v"])', '@filter(op: "is_null", value: ["$v"])', '@filter(op: "is_null", value: [])',
    '@filter(op: "=", value: ["$v"], extra: 1)', '@filter(op: "=", op: "=", value: ["$v"])', '@filter(op: "=", value: [["$v"]])', '@filter(op: "=", value: ["$v"]) @filter(op: "=", value: ["$v"])',
    '@filter(op: "=", value: ["%undefined_tag"])', '@filter(op: "<", value: ["$v"]) @filter(op: "regex", value: ["$v"])',
    '@output(name: 1)', '@output(name: "")', '@output(name: "has space")', '@output(name: "a-b")', '@output(name: "1abc")', '@output(name: "ok", extra: 2)', '@output(nam: "x")', '@output(name: null)', '@output(name: ["x"])',
    '@output @output', '@output(name: "dup") @output(name: "dup")', '@output(name: "rid")',
    '@tag(name: 1)', '@tag(name: "")', '@tag(name: "a b")', '@tag(name: "t") @tag(name: "t")', '@tag(name: "unused")', '@tag', '@tag(nam: "x")',
    '@transform', '@transform(op: "sum")', '@transform(op: 1)', '@transform(op: "count", extra: 1)', '@transform(op: "count")',
    '@recurse', '@recurse(depth: 0)', '@recurse(depth: -1)', '@recurse(depth: "2")', '@recurse(depth: 2.5)', '@recurse(depth: 99999999999999999999)', '@recurse(depth: 2, extra: 1)', '@recurse(depth: 300)', '@recurse(depth: null)', '@recurse(depth: $d)',
    '@optional(x: 1)', '@fold(x: 1)', '@optional @optional', '@fold @fold', '@fold @optional', '@optional @fold', '@fold @recurse(depth: 2)', '@recurse(depth: 2) @optional',
    '@fold @transform(op: "count") @transform(op: "count")', '@fold @transform(op: "count") @transform(op: "count") @output(name: "cc")', '@fold @transform(op: "count") @output', '@fold @transform(op: "count") @tag',
    '@fold @transform(op: "count") @output(name: "c") @output(name: "c2")', '@fold @transform(op: "count") @filter(op: "=", value: ["$s"])', '@fold @transform(op: "count") @filter(op: "has_prefix", value: ["$n"])',
    '@fold @transform(op: "count") @filter(op: "one_of", value: ["$n"])', '@fold @transform(op: "count") @filter(op: "is_null")', '@fold @transform(op: "count") @filter(op: "contains", value: ["$n"])',
    '@skip(if: true)', '@include(if: false)', '@deprecated',
]
def malformed_documents():
    out = []
    for m in MALFORMED:
        out.append({"text": '{ Nodes { id @output(name: "rid") val %s } }' % m, "cls": {"family": "malformed", "pos": "prop", "dir": m}})
        out.append({"text": '{ Nodes { id @output(name: "rid") next %s { id @output(name: "x") } } }' % m, "cls": {"family": "malformed", "pos": "edge", "dir": m}})
    return out

BODY = 'Nodes { id @output(name: "rid") }'
SHAPES = [
    "", " ", "{}", "{ }", "query { }", "{ %s }" % BODY, "query { %s }" % BODY, "query Q { %s }" % BODY, "mutation { %s }" % BODY, "subscription { %s }" % BODY,
    "query A { %s } query B { %s }" % (BODY, BODY), "query A { %s } query B { %s } query C { %s }" % (BODY, BODY, BODY), "{ %s } { %s }" % (BODY, BODY), "query A { %s } mutation B { %s }" % (BODY, BODY),
    "query A { %s } query A { %s }" % (BODY, BODY),
    "query($x: Int) { %s }" % BODY, "query Q($x: Int = 3) { %s }" % BODY, "query @fold { %s }" % BODY, "query Q @bogus { %s }" % BODY,
    "{ %s %s }" % (BODY, BODY), "{ %s OneA { id @output(name: \"a\") } }" % BODY, "{ ...F }", "{ ... on Root { %s } }" % BODY, "{ ... { %s } }" % BODY,
    "{ %s } fragment F on Node { id }" % BODY, "fragment F on Node { id }", "{ Nodes { ...F } } fragment F on Node { id @output }", "fragment F on Node { id } fragment G on Node { id }",
    # an operation followed by several fragment definitions (which of them the error points at must not depend on hashing)
    "{ %s }\nfragment F on Node { id }\nfragment G on Node { id }" % BODY, "{ %s }\nfragment F on Node { id }\nfragment G on Node { id }\nfragment H on Node { id }" % BODY,
    "fragment A1 on Node { id }\nfragment A2 on Node { id }\nfragment A3 on Node { id }\nfragment A4 on Node { id }\nfragment A5 on Node { id }\nquery { %s }" % BODY,
    "{ Nodes { ... on A { id @output(name: \"rid\") } } }", "{ Nodes { ... { id @output(name: \"rid\") } } }", "{ Nodes { ... on A { id @output(name: \"rid\") } name } }", "{ Nodes { name ... on A { id @output(name: \"rid\") } } }",
    "{ Nodes { ... on A { ... on A { id @output(name: \"rid\") } } } }", "{ Nodes { ... on A { id @output(name: \"rid\") } ... on B { id } } }", "{ Nodes { ... on Ghost { id @output(name: \"rid\") } } }",
    "{ Nodes { ... on A @optional { id @output(name: \"rid\") } } }", "{ Nodes { ... on A @filter(op: \"=\", value: [\"$v\"]) { id @output(name: \"rid\") } } }", "{ Nodes { ... on Root { id @output(name: \"rid\") } } }",
    "{ Nodes { ... on Node { id @output(name: \"rid\") } } }", "{ OneA { ... on B { id @output(name: \"rid\") } } }", "{ OneA { ... on Node { id @output(name: \"rid\") } } }",
    "{ Nodes { id { ... on A { id @output } } } }", "{ Nodes { id { id @output } } }", "{ Nodes { val @output { x } } }", "{ Nodes { __typename { ... on A { id @output } } } }",
    "{ Nodes { a: next @fold @transform(op: \"count\") @output(name: \"x\") { id } peer @fold @transform(op: \"count\") @output(name: \"x\") { id } } }",
    "{ Nodes { next @fold @transform(op: \"count\") @output(name: \"x\") { id @output(name: \"x\") } } }",
    "{ Nodes { id @output(name: \"x\") next @fold @transform(op: \"count\") @output(name: \"x\") { id } } }",
    "{ Nodes { next @fold @transform(op: \"count\") @output @output { id } } }", "{ Nodes { next @fold { id @output(name: \"x\") next @fold { id @output(name: \"x\") } } } }",
    "{ Nodes }", "{ Nodes { } }", "{ Nodes { id } }", "{ Nodes { id @output id @output } }", "{ Nodes { ghost @output } }", "{ Ghost { id @output } }", "{ Nodes { id { x } } }", "{ Nodes { next @output } }",
    "{ Nodes { next } }", "{ Nodes { next { } } }", "{ Nodes { id @output(name: \"rid\") next { next { next { next { next { next { next { next { id @output(name: \"deep\") } } } } } } } } } }",
    "{ Nodes { __typename @output } }", "{ Nodes { __typename @output __typename @output(name: \"t2\") } }", "{ __typename }", "{ __schema { types { name } } }", "{ Nodes { __ghost @output } }",
    "{ a: Nodes { id @output } }", "{ Nodes { a: id @output b: id @output } }", "{ Nodes { a: id @output a: id @output } }", "{ Nodes { a: next { id @output } b: next { id @output } } }", "{ Nodes { a: next { id @output } a: next { id @output } } }",
    "{ Nodes { id @output } ", "{ Nodes { id @output } } }", "{ Nodes { id @output(name: \"x\" } }", "{ Nodes { id @output(name: x) } }", "\ufeff{ %s }" % BODY, "# comment only", "{ Nodes { id @output } } # trailing",
    "{ Nodes { id @output, val @output } }", "{ Nodes(", "{ Nodes { id @ } }", "{ Nodes { id @@output } }", "{ Nodes { id @output(name: \"\\u0000\") } }", "{ Nodes { id @output(name: \"\\ud800\") } }",
    "{ OneA { toB { b @output } } }", "{ OneA { toB @recurse(depth: 1) { b @output } } }", "{ Nodes { peer @recurse(depth: 1) { id @output } } }", "{ Nodes { peer @fold @transform(op: \"count\") @output(name: \"c\") } }",
    "{ Nodes { id @tag(name: \"t\") next @fold { val @filter(op: \"=\", value: [\"%t\"]) @filter(op: \"<\", value: [\"%t\"]) } } }",
    "{ Nodes { next @fold { val @tag(name: \"t\") } val @filter(op: \"=\", value: [\"%t\"]) } }", "{ Nodes { val @filter(op: \"=\", value: [\"%t\"]) id @tag(name: \"t\") } }",
    "{ Nodes { id @tag(name: \"a\") @tag(name: \"b\") next @fold { val @filter(op: \"=\", value: [\"%a\"]) @filter(op: \"<\", value: [\"%b\"]) } } }",
    "{ Nodes { id @tag(name: \"u1\") val @tag(name: \"u2\") name @tag(name: \"u3\") tags @tag(name: \"u4\") id @output } }",
    "{ Nodes { id @output(name: \"d\") val @output(name: \"d\") name @output(name: \"e\") tags @output(name: \"e\") } }",
    "{ Nodes { id @output val @filter(op: \"=\", value: [\"%g1\"]) name @filter(op: \"=\", value: [\"%g2\"]) } }",
    "{ Nodes { id @output val @filter(op: \"has_prefix\", value: [\"$p\"]) name @filter(op: \"<\", value: [\"$q\"]) tags @filter(op: \"regex\", value: [\"$r\"]) } }",
    "{ Nodes { id @output ghost1 @output ghost2 @output } }", "{ Nodes { id @output val @filter(op: \"=\", value: [\"$x\"]) name @filter(op: \"=\", value: [\"$x\"]) } }",
]
PARAMS = ["min: 1", "min: null", "min: -1", "min: 1.5", "min: \"1\"", "min: true", "min: [1]", "min: {a: 1}", "min: $x", "min: FOO", "min: 99999999999999999999", "min: -99999999999999999999", "min: 18446744073709551615",
          "min: 1, min: 2", "ghost: 1", "min: 1, ghost: 2", "", "min: 1e400", "min: 0x10", "min: [[1]]", "min: [FOO]", "min: [null]"]
def param_documents():
    out = []
    for p in PARAMS:
        a = f"({p})" if p else ""
        out.append({"text": '{ Nodes { id @output(name: "rid") next%s { id @output(name: "x") } } }' % a, "cls": {"family": "params", "pos": "edge", "param": p}})
        out.append({"text": '{ NodesFrom%s { id @output(name: "rid") } }' % a, "cls": {"family": "params", "pos": "root", "param": p}})
        out.append({"text": '{ Nodes { id%s @output(name: "rid") } }' % a, "cls": {"family": "params", "pos": "prop", "param": p}})
    return out

def shape_documents(): return [{"text": s, "cls": {"family": "shape"}} for s in SHAPES]

def doc_instances(seqs, seed=1):
    import random
    sc = VS1(); rng = random.Random(seed)
    g = gen_graph(random.Random(7), sc, 4)
    docs = seq_documents(seqs) + malformed_documents() + shape_documents() + param_documents()
    args = {"v": I(1), "n": I(1), "s": S("a"), "w": I(2), "x": I(1), "p": S("a"), "q": S("b"), "r": S("a"), "d": I(2)}
    out = []
    for k, d in enumerate(docs):
        inst = {"id": k + 1, "schema": sc.record(), "sdl": sc.sdl(), "g": g, "q": {}, "text": d["text"], "args": args, "cls": d["cls"]}
        out.append(inst)
    return out
