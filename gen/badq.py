"""Near-valid queries for the frontend-validity model (spec/Frontend.tla): a valid random query with ONE (sometimes two) targeted
mutations, each aimed at one rule of the frontend (unknown field, bad coercion, ill-typed filter, tag scoping, duplicate names,
edge parameters, recursion, variables).  The label only names what was attempted; the verdict (accept / which error kinds) is
computed by the specification from the mutated query itself, so a mutation that happens to yield a valid query is simply a valid case."""
import copy, random
from lib import *
from randq import RandQ, STRING_OPS

ALL_OPS = ["=", "!=", "<", "<=", ">", ">=", "one_of", "not_one_of", "contains", "not_contains", "is_null", "is_not_null"] + STRING_OPS

def scopes_typed(sc, q):
    """(node, static type, path of fold ids) in pre-order"""
    out = []
    def go(n, ty, depth):
        if ty not in sc.types: return
        out.append((n, ty, depth))
        for e in n["edges"]:
            d = sc.edges(ty).get(e["edge"])
            if d is None: continue
            go(e, e["coerce"] or d["to"], depth + 1)
    go(q, q["coerce"] or sc.root[q["edge"]]["to"], 0)
    return out

def sample_value(rng, tytext):
    t = T(tytext)
    if len(t["mods"]) > 1:
        inner = tytext.rstrip("!")[1:-1]
        return L([sample_value(rng, inner) for _ in range(rng.choice([0, 1, 2]))])
    return {"Int": I(rng.choice([0, 1, 2])), "Float": F2(rng.choice([1, 2])), "Boolean": B(True)}.get(t["base"], S(rng.choice(["a", "b"])))

def all_tags(q):
    out = []
    for n in walk_scopes(q):
        for p in n["props"]: out += [t["name"] for t in p["tags"] if t["name"]]
        if "count" in n: out += [t["name"] for t in n["count"]["tags"] if t["name"]]
    return out
def all_outputs(q):
    out = []
    for n in walk_scopes(q):
        for p in n["props"]: out += [o["name"] for o in p["outputs"] if o["name"]]
        if "count" in n: out += [o["name"] for o in n["count"]["outputs"] if o["name"]]
    return out

def mutate(rng, sc, q0, args0):
    """returns (label, q, args) or None"""
    q = copy.deepcopy(q0); args = dict(args0)
    scs = scopes_typed(sc, q)
    if not scs: return None
    n, ty, depth = rng.choice(scs)
    kind = rng.choice(MUTATIONS)
    def newvar(val):
        k = 1
        while f"w{k}" in args: k += 1
        args[f"w{k}"] = val; return f"w{k}"
    if kind == "unknown_property":
        n["props"].append(prop_node("nope", outputs=["zz_np"]))
    elif kind == "property_of_other_type":
        others = sorted({p for t in sc.types for p in sc.props(t)} - set(sc.props(ty)))
        if not others: return None
        n["props"].append(prop_node(rng.choice(others), outputs=["zz_op"]))
    elif kind == "unknown_edge":
        n["edges"].append(edge_node("nope", props=[prop_node("id")]))
    elif kind == "edge_of_other_type":
        others = sorted({e for t in sc.types for e in sc.edges(t)} - set(sc.edges(ty)))
        if not others: return None
        n["edges"].append(edge_node(rng.choice(others), rng.choice(["plain", "optional", "fold"]), props=[prop_node("id")]))
    elif kind == "edge_as_property":
        es = list(sc.edges(ty))
        if not es: return None
        en = rng.choice(es); r = rng.random()
        # an edge written without a selection: bare (a mandatory edge; kept as an edge node so that Sem / JudgeIR see it), or carrying a property directive
        if r < 0.4: n["edges"].append(edge_node(en))
        elif r < 0.6: n["props"].append(prop_node(en, outputs=["zz_ep"]))
        elif r < 0.8: n["props"].append(prop_node(en, filters=[FNone("is_not_null")]))
        else: n["props"].append(prop_node(en, tags=["zz_et"], outputs=["zz_eo"] if rng.random() < 0.3 else []))
    elif kind == "property_as_edge":
        ps = [p for p in sc.props(ty)]
        n["edges"].append(edge_node(rng.choice(ps + ["__typename"]), props=[prop_node("id")]))
    elif kind == "coerce_bad":
        cands = [x for x in scs if x[0] is not q]
        if not cands: return None
        e, ety, _ = rng.choice(cands)
        e["coerce"] = rng.choice(sorted(sc.types) + ["Ghost", sc.root_name])
        # properties below may no longer exist on the new type: keep only `id`
        e["props"] = [prop_node("id", outputs=["zz_c"])]; e["edges"] = []
    elif kind == "coerce_root_bad":
        q["coerce"] = rng.choice(sorted(sc.types) + ["Ghost"]); q["props"] = [prop_node("id", outputs=["zz_c"])]; q["edges"] = []
    elif kind == "filter_any_op":
        ps = list(sc.props(ty).items()) + [("__typename", "String!")]
        pn, pty = rng.choice(ps); op = rng.choice(ALL_OPS)
        if op in ("is_null", "is_not_null"): f = FNone(op)
        else:
            base = pty.rstrip("!")
            guess = rng.choice([pty, "[" + base + "]", "String", "Int", base[1:-1] if base.startswith("[") else base, "[Int]", "Boolean", "Float"])
            f = FVar(op, newvar(sample_value(rng, guess)))
        n["props"].append(prop_node(pn, filters=[f]))
    elif kind == "filter_any_tag":
        tags = all_tags(q)
        if not tags: return None
        ps = list(sc.props(ty).items()) + [("__typename", "String!")]
        pn, pty = rng.choice(ps); op = rng.choice([o for o in ALL_OPS if "null" not in o])
        n["props"].append(prop_node(pn, filters=[FTag(op, rng.choice(tags))]))
    elif kind == "new_tag_any_filter":
        # a fresh tag on one property of this vertex used at once by a filter with any operator on another property of the same vertex
        ps = list(sc.props(ty).items()) + [("__typename", "String!")]
        (tn, _), (pn, _) = rng.choice(ps), rng.choice(ps)
        n["props"].append(prop_node(tn, tags=["zn"])); n["props"].append(prop_node(pn, filters=[FTag(rng.choice([o for o in ALL_OPS if "null" not in o]), "zn")]))
    elif kind == "count_filter_any":
        fs = [x[0] for x in scs if x[0]["mode"] == "fold"]
        if not fs: return None
        e = rng.choice(fs); c = e.setdefault("count", {"filters": [], "outputs": [], "tags": []})
        op = rng.choice(ALL_OPS)
        tags = all_tags(q)
        if op in ("is_null", "is_not_null"): c["filters"].append(FNone(op))
        elif tags and rng.random() < 0.5: c["filters"].append(FTag(op, rng.choice(tags)))
        else: c["filters"].append(FVar(op, newvar(sample_value(rng, rng.choice(["Int", "[Int]", "String", "Float"])))))
    elif kind == "undefined_tag":
        pn = rng.choice(list(sc.props(ty)))
        n["props"].append(prop_node(pn, filters=[FTag(rng.choice(["=", "!="]), "nosuch")]))
    elif kind == "tag_anywhere":
        # a new tag on a random property, used by a `=` filter on the same property name at another random scope (before, after, inside or outside folds)
        m, mty, _ = rng.choice(scs)
        common = [p for p in sc.props(ty) if p in sc.props(mty)]
        if not common: return None
        pn = rng.choice(common)
        n["props"].insert(rng.choice([0, len(n["props"])]), prop_node(pn, tags=["zt"]))
        m["props"].insert(rng.choice([0, len(m["props"])]), prop_node(pn, filters=[FTag("=", "zt")]))
    elif kind == "count_tag_anywhere":
        fs = [x[0] for x in scs if x[0]["mode"] == "fold"]
        if not fs: return None
        e = rng.choice(fs); c = e.setdefault("count", {"filters": [], "outputs": [], "tags": []})
        c["tags"].append({"name": "zc" if rng.random() < 0.85 else ""})
        m, mty, _ = rng.choice(scs)
        m["props"].insert(rng.choice([0, len(m["props"])]), prop_node("id", filters=[FTag(rng.choice(["=", "<", ">="]), "zc")]))
    elif kind == "unused_tag":
        pn = rng.choice(list(sc.props(ty)))
        n["props"].append(prop_node(pn, tags=["zu"]))
    elif kind == "duplicate_tag":
        tags = all_tags(q)
        if not tags: return None
        t = rng.choice(tags); pn = rng.choice(list(sc.props(ty)))
        n["props"].append(prop_node(pn, tags=[t]))
    elif kind == "implicit_tag_name":
        pn = rng.choice(list(sc.props(ty)))
        n["props"].append(prop_node(pn, tags=[""], alias=rng.choice(["", "zal"])))
        m, mty, _ = rng.choice(scs)
        if pn in sc.props(mty): m["props"].append(prop_node(pn, filters=[FTag("=", rng.choice([pn, "zal"]))]))
    elif kind == "duplicate_output":
        outs = all_outputs(q)
        if not outs: return None
        pn = rng.choice(list(sc.props(ty)))
        n["props"].append(prop_node(pn, outputs=[rng.choice(outs)]))
    elif kind == "implicit_output_clash":
        pn = rng.choice(list(sc.props(ty)))
        n["props"].append(prop_node(pn, outputs=[""])); n["props"].append(prop_node(pn, outputs=[""], alias=rng.choice(["", pn, "zz"])))
    elif kind == "edge_params":
        cands = [(x[0], sc.edges(scs[0][1]) if False else None) for x in scs]
        e = rng.choice([x[0] for x in scs])
        what = rng.choice(["unexpected", "wrong_type", "null", "drop_all", "float_for_int", "list_for_int"])
        decl = (sc.root[e["edge"]] if e is q else None)
        if what == "unexpected": e["params"]["zzz"] = I(1)
        elif what == "drop_all": e["params"] = {}
        else:
            names = list(e["params"]) or ["min"]
            e["params"][rng.choice(names)] = {"wrong_type": S("x"), "null": NULL, "float_for_int": F2(1), "list_for_int": L([I(1)])}[what]
    elif kind == "recurse_any_edge":
        cands = [x[0] for x in scs if x[0] is not q]
        if not cands: return None
        e = rng.choice(cands)
        if "count" in e: del e["count"]
        e["mode"] = "recurse"; e["depth"] = rng.choice([0, 1, 2, -1])
    elif kind == "incompatible_variable":
        if not args: return None
        v = rng.choice(sorted(args)); pn, pty = rng.choice(list(sc.props(ty).items()))
        op = rng.choice(["=", "<", "one_of", "contains", "has_prefix"])
        n["props"].append(prop_node(pn, filters=[FVar(op, v)]))
    else:
        return None
    return kind, q, args

MUTATIONS = ["unknown_property", "property_of_other_type", "unknown_edge", "edge_of_other_type", "edge_as_property", "property_as_edge", "coerce_bad", "coerce_root_bad",
             "filter_any_op", "filter_any_op", "filter_any_tag", "filter_any_tag", "new_tag_any_filter", "new_tag_any_filter", "new_tag_any_filter", "count_filter_any", "undefined_tag", "tag_anywhere", "tag_anywhere", "count_tag_anywhere",
             "unused_tag", "duplicate_tag", "implicit_tag_name", "duplicate_output", "implicit_output_clash", "edge_params", "edge_params", "recurse_any_edge", "recurse_any_edge",
             "incompatible_variable"]

def bad_instances(seed, count, schema_name="VS1", start_id=1):
    rng = random.Random(seed * 104729 + 11); sc = SCHEMAS[schema_name]()
    g = gen_graph(rng, sc, 3)
    out = []
    while len(out) < count:
        q, args = RandQ(rng, sc).build()
        m = mutate(rng, sc, q, args)
        if m is None: continue
        kind, q2, args2 = m
        if rng.random() < 0.15:
            m2 = mutate(rng, sc, q2, args2)
            if m2 is not None: kind, q2, args2 = kind + "+" + m2[0], m2[1], m2[2]
        out.append(make_instance(start_id + len(out), sc, g, q2, args2, cls={"family": "mutated", "schema": schema_name, "mutation": kind}))
    return out

def frontend_universe(tier, seed):
    n = {"quick": 1500, "thorough": 15000}[tier]
    insts = bad_instances(seed, n, "VS1") + bad_instances(seed + 1, n // 2, "VS2") + bad_instances(seed + 2, n // 2, "VS3")
    for k, x in enumerate(insts): x["id"] = k + 1
    return insts

if __name__ == "__main__":
    xs = frontend_universe("quick", 1)
    import collections
    print(len(xs), collections.Counter(x["cls"]["mutation"].split("+")[0] for x in xs).most_common())
    print(xs[7]["text"], xs[7]["cls"])
