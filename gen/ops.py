"""C07 binding A: operator-focused instances built from the value universe that TLC dumped (MC_Values).
Every (operator, left, right) the frontend's typing admits is driven through the *public* path of the real engine:
the variable path (argument value) and the tag path (value of another property), with one vertex per left value / pair."""
from lib import *

KIND_PROPS = {"int": ("li", "ri", "Int"), "float": ("lf", "rf", "Float"), "str": ("ls", "rs", "String"), "bool": ("lb", "rb", "Boolean")}
LIST_PROPS = {"int": ("lli", "rli", "[Int]"), "str": ("lls", "rls", "[String]")}

def VSOPS():
    props = {"id": "Int!"}
    for l, r, t in list(KIND_PROPS.values()) + list(LIST_PROPS.values()):
        props[l] = t; props[r] = t
    types = {"Item": dict(kind="type", props=props, edges={})}
    return Schema("VSOPS", "Query", types, {"Items": {"to": "Item", "sdl": "[Item!]!"}})

PATTERNS = [S(""), S("a"), S("^a"), S("b$"), S("^ab$"), S("^$"), S("ab"), S("^b")]

def elems_ok(lst, kind):
    return all(x["k"] in (kind, "null") for x in lst["v"])

def graph_of(sc, rows):
    """rows: list of dicts prop -> value; every other property is null"""
    verts = []
    for i, r in enumerate(rows):
        props = {p: NULL for p in sc.types["Item"]["props"]}
        props["id"] = I(i + 1); props.update(r)
        verts.append({"id": i + 1, "ty": "Item", "props": props})
    return {"verts": verts, "adj": {}, "entry": {"Items": list(range(1, len(rows) + 1))}}

def ops_instances(universe):
    sc = VSOPS()
    scal = universe["scalars"]; lists = universe["lists1"] + universe["lists2"]
    by_kind = {k: [v for v in scal if v["k"] == k] for k in ("int", "float", "str", "bool")}
    lists_of = {k: [l for l in lists if elems_ok(l, k)] for k in ("int", "str")}
    out = []
    def add(op, lp, rp, lvals, rvals, cls, var_ok=lambda r: True):
        # tag path: one vertex per (l, r) pair; the tag is taken from the right-hand property of the same vertex
        pairs = [(l, r) for l in lvals for r in rvals]
        for chunk in range(0, len(pairs), 240):
            part = pairs[chunk:chunk + 240]
            q = edge_node("Items", props=[prop_node("id", outputs=["id"]), prop_node(rp, tags=["t"]), prop_node(lp, filters=[FTag(op, "t")])])
            out.append(make_instance(0, sc, graph_of(sc, [{lp: l, rp: r} for l, r in part]), q, {}, cls=dict(cls, path="tag", op=op)))
        # variable path: one instance per right value, one vertex per left value
        for r in rvals:
            if not var_ok(r): continue
            q = edge_node("Items", props=[prop_node("id", outputs=["id"]), prop_node(lp, filters=[FVar(op, "v")])])
            out.append(make_instance(0, sc, graph_of(sc, [{lp: l} for l in lvals]), q, {"v": r}, cls=dict(cls, path="var", op=op)))
    for kind, (lp, rp, _) in KIND_PROPS.items():
        vals = [NULL] + by_kind[kind]
        for op in ("=", "!="): add(op, lp, rp, vals, vals, {"family": "ops", "kind": kind})
        if kind in ("int", "float", "str"):
            for op in ("<", "<=", ">", ">="): add(op, lp, rp, vals, vals, {"family": "ops", "kind": kind}, var_ok=lambda r: r["k"] != "null")
    for kind, (llp, rlp, _) in LIST_PROPS.items():
        lp, rp, _ = KIND_PROPS[kind]
        svals = [NULL] + by_kind[kind]; lvals = [NULL] + lists_of[kind]
        for op in ("one_of", "not_one_of"): add(op, lp, rlp, svals, lvals, {"family": "ops", "kind": kind + "-in-list"}, var_ok=lambda r: r["k"] != "null")
        for op in ("contains", "not_contains"): add(op, llp, rp, lvals, svals, {"family": "ops", "kind": "list-has-" + kind})
        for op in ("=", "!="): add(op, llp, rlp, lvals, lvals, {"family": "ops", "kind": "list-" + kind})
    strs = [NULL] + by_kind["str"]
    for op in ("has_prefix", "not_has_prefix", "has_suffix", "not_has_suffix", "has_substring", "not_has_substring"):
        add(op, "ls", "rs", strs, strs, {"family": "ops", "kind": "string"}, var_ok=lambda r: r["k"] != "null")
    for op in ("regex", "not_regex"):
        add(op, "ls", "rs", strs, [NULL] + PATTERNS, {"family": "ops", "kind": "regex"}, var_ok=lambda r: r["k"] != "null")
    # unary operators on every nullable left property
    for lp, vals in [("li", [NULL] + by_kind["int"]), ("ls", strs), ("lli", [NULL] + lists_of["int"])]:
        for op in ("is_null", "is_not_null"):
            q = edge_node("Items", props=[prop_node("id", outputs=["id"]), prop_node(lp, filters=[FNone(op)])])
            out.append(make_instance(0, sc, graph_of(sc, [{lp: l} for l in vals]), q, {}, cls={"family": "ops", "kind": "unary", "op": op, "path": "none"}))
    for k, inst in enumerate(out): inst["id"] = k + 1
    return out
