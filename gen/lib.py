"""Shared generator library: value codec, abstract schemas (VS1..VS3) and their SDL rendering,
graph generation, source-level query ASTs and their GraphQL rendering (DESIGN section 4)."""
import json, random

OFF = 1 << 63

def limbs(x):
    y = x + OFF
    return [y >> 48, (y >> 24) & 0xFFFFFF, y & 0xFFFFFF]
def unlimbs(v): return ((v[0] << 48) | (v[1] << 24) | v[2]) - OFF
def I(n, r="i"): return {"k": "int", "r": r, "v": limbs(n)}
def U(n): return I(n, "u")
NULL = {"k": "null"}
def S(s): return {"k": "str", "v": list(s)}
def L(xs): return {"k": "list", "v": list(xs)}
def B(b): return {"k": "bool", "v": bool(b)}
def F2(n): return {"k": "float", "v": n}          # the float n/2
def E(s): return {"k": "enum", "v": list(s)}

def pretty(v):
    k = v["k"]
    if k == "null": return "null"
    if k == "int": return str(unlimbs(v["v"])) + ("u" if v.get("r") == "u" else "")
    if k == "float": return repr(v["v"] / 2)
    if k == "str": return json.dumps("".join(v["v"]))
    if k == "enum": return "#" + "".join(v["v"])
    if k == "bool": return "true" if v["v"] else "false"
    if k == "list": return "[" + ", ".join(pretty(x) for x in v["v"]) + "]"
    return json.dumps(v)

def render_val(v):
    """GraphQL literal"""
    k = v["k"]
    if k == "null": return "null"
    if k == "int": return str(unlimbs(v["v"]))
    if k == "float": return repr(v["v"] / 2)
    if k == "str": return json.dumps("".join(v["v"]))
    if k == "enum": return "".join(v["v"])
    if k == "list": return "[" + ", ".join(render_val(x) for x in v["v"]) + "]"
    if k == "bool": return "true" if v["v"] else "false"
    raise ValueError(k)

# ------------------------------------------------------------------ types
def T(text):
    """'[Int!]' -> {"base":"Int","mods":[True, False],"text":...}; mods = nullability from the outermost level to the leaf"""
    t = text.strip(); mods = []
    while True:
        nn = t.endswith("!")
        if nn: t = t[:-1]
        mods.append(not nn)
        if t.startswith("["): t = t[1:-1]
        else: break
    return {"base": t, "mods": mods, "text": text.strip()}

DIRECTIVES = """
directive @filter(op: String!, value: [String!]) repeatable on FIELD | INLINE_FRAGMENT
directive @tag(name: String) repeatable on FIELD
directive @output(name: String) repeatable on FIELD
directive @optional on FIELD
directive @recurse(depth: Int!) on FIELD
directive @fold on FIELD
directive @transform(op: String!) repeatable on FIELD
"""

class Schema:
    """types: name -> dict(kind, implements (direct), props {p: typetext}, edges {e: dict(to, many, nullable, params {n: dict(type, default?)})})
       root: entry name -> dict(to, many, params)"""
    def __init__(self, name, root_name, types, root):
        self.name, self.root_name, self.types, self.root = name, root_name, types, root
        for tn, t in types.items():
            t.setdefault("implements", []); t.setdefault("props", {}); t.setdefault("edges", {})
    def supers(self, t):
        out = []
        for s in self.types[t]["implements"]:
            if s not in out: out.append(s)
            for x in self.supers(s):
                if x not in out: out.append(x)
        return out
    def subtype(self, a, b): return a == b or b in self.supers(a)
    def concrete(self): return [t for t, d in self.types.items() if d["kind"] == "type"]
    def props(self, t): return dict(self.types[t]["props"], __typename="String!")
    def edges(self, t): return self.types[t]["edges"]
    def record(self):
        types = {}
        for tn, t in self.types.items():
            types[tn] = {"kind": t["kind"], "supers": self.supers(tn), "chars": list(tn),
                         "props": {p: T(ty) for p, ty in t["props"].items()},
                         "edges": {e: {"to": d["to"], "many": d.get("many", True),
                                       "params": {n: {"type": T(pd["type"]), "hasDefault": "default" in pd, "default": pd.get("default", NULL)} for n, pd in d.get("params", {}).items()}}
                                   for e, d in t["edges"].items()}}
        root = {e: {"to": d["to"], "many": d.get("many", True),
                    "params": {n: {"type": T(pd["type"]), "hasDefault": "default" in pd, "default": pd.get("default", NULL)} for n, pd in d.get("params", {}).items()}}
                for e, d in self.root.items()}
        return {"name": self.name, "rootName": self.root_name, "types": types, "root": root}
    def sdl(self):
        def field_edge(e, d):
            ps = ""
            if d.get("params"):
                ps = "(" + ", ".join(f"{n}: {pd['type']}" + (f" = {render_val(pd['default'])}" if "default" in pd else "") for n, pd in d["params"].items()) + ")"
            ty = d.get("sdl") or (f"[{d['to']}!]" if d.get("many", True) else d["to"])
            return f"  {e}{ps}: {ty}"
        out = [f"schema {{ query: {self.root_name} }}", DIRECTIVES, f"type {self.root_name} {{"]
        out += [field_edge(e, d) for e, d in self.root.items()] + ["}"]
        for tn, t in self.types.items():
            kw = "interface" if t["kind"] == "interface" else "type"
            impl = (" implements " + " & ".join(t["implements"])) if t["implements"] else ""
            out.append(f"{kw} {tn}{impl} {{")
            out += [f"  {p}: {ty}" for p, ty in t["props"].items()]
            out += [field_edge(e, d) for e, d in t["edges"].items()]
            out.append("}")
        return "\n".join(out) + "\n"

def _node_fields():
    return dict(props={"id": "Int!", "val": "Int", "name": "String", "tags": "[Int!]"},
                edges={"next": {"to": "Node", "params": {"min": {"type": "Int"}}}, "peer": {"to": "Node", "many": False},
                       # a NULLABLE parameter with an explicit non-null default: omitted, it must arrive as 1 (neighbours with val >= 1), not as null
                       "near": {"to": "Node", "params": {"min": {"type": "Int", "default": I(1)}}}})
def _merge(a, **kw):
    out = {"props": dict(a["props"]), "edges": {k: dict(v) for k, v in a["edges"].items()}}
    out["props"].update(kw.get("props", {})); out["edges"].update(kw.get("edges", {}))
    return out

def VS1():
    n = _node_fields()
    types = {
        "Node": dict(kind="interface", **_merge(n)),
        "A": dict(kind="type", implements=["Node"], **_merge(n, props={"a": "Int"}, edges={"toB": {"to": "B"}})),
        "B": dict(kind="type", implements=["Node"], **_merge(n, props={"b": "String"})),
    }
    root = {"Nodes": {"to": "Node", "sdl": "[Node!]!"},
            "NodesFrom": {"to": "Node", "sdl": "[Node!]", "params": {"min": {"type": "Int!", "default": I(0)}}},
            "OneA": {"to": "A", "many": False}}
    return Schema("VS1", "Root", types, root)

def VS2():
    """Recursion cases of get_recurse_implicit_coercion and a two-level interface chain.
       Base <- Mid <- {C, D};  edges: Base.link -> Base ; Mid.up -> Base (recursing from Mid needs coercion back to Mid: case 'origin');
       C.toMid -> Mid (C ⊑ Mid: recursing C.toMid yields Mid vertices; deeper levels need Mid.toMid? no: handled as error)"""
    base = dict(props={"id": "Int!", "val": "Int", "name": "String"}, edges={"link": {"to": "Base"}})
    mid = _merge(base, props={"m": "Int"}, edges={"sub": {"to": "Mid"}, "toC": {"to": "C"}, "up": {"to": "Base"}})
    types = {
        "Base": dict(kind="interface", **_merge(base)),
        "Mid": dict(kind="interface", implements=["Base"], **mid),
        "C": dict(kind="type", implements=["Mid", "Base"], **_merge(mid, props={"c": "String"})),
        "D": dict(kind="type", implements=["Mid", "Base"], **_merge(mid, props={"d": "Int"})),
        "Leaf": dict(kind="type", implements=["Base"], **_merge(base, props={"leaf": "Int"})),
    }
    root = {"Bases": {"to": "Base", "sdl": "[Base!]!"}, "Mids": {"to": "Mid", "sdl": "[Mid!]"}, "Cs": {"to": "C", "sdl": "[C!]"}}
    return Schema("VS2", "RootQ", types, root)

def VS3():
    """List-typed, float, boolean properties and Int!/nullable mixes for operator typing."""
    props = {"id": "Int!", "val": "Int", "req": "Int!", "f": "Float", "s": "String", "sreq": "String!", "flag": "Boolean",
             "ints": "[Int]", "intsreq": "[Int!]!", "strs": "[String!]", "nested": "[[Int!]]"}
    types = {"Item": dict(kind="type", props=props, edges={"rel": {"to": "Item", "params": {"lim": {"type": "Int!"}, "pick": {"type": "[String!]"}, "w": {"type": "Float", "default": F2(3)}}},
                                                         "one": {"to": "Item", "many": False}})}
    # `rel` has a required parameter, a nullable list parameter without default and a float parameter with a default; the entry point a nullable String
    root = {"Items": {"to": "Item", "sdl": "[Item!]!", "params": {"label": {"type": "String"}}}}
    return Schema("VS3", "Query", types, root)

SCHEMAS = {"VS1": VS1, "VS2": VS2, "VS3": VS3}

# ------------------------------------------------------------------ graphs
def value_pool(ty, rng=None):
    t = T(ty); base = t["base"]; depth = len(t["mods"]) - 1
    if depth == 0:
        pool = {"Int": [I(-2), I(0), I(1), I(2), I(2), I(3)], "String": [S("a"), S("ab"), S("b"), S("")], "Float": [F2(1), F2(2), F2(3)],
                "Boolean": [B(True), B(False)]}[base]
        return ([NULL] if t["mods"][0] else []) + pool
    inner = ty.strip()
    if inner.endswith("!"): inner = inner[:-1]
    inner = inner[1:-1]
    ip = value_pool(inner)
    pool = [L([]), L([ip[-1]]), L([ip[0], ip[-1]]), L([ip[-1], ip[-1]]), L(ip[:2])]
    return ([NULL] if t["mods"][0] else []) + pool

def gen_graph(rng, sc, nmax=5):
    conc = sc.concrete()
    n = rng.choice([0, 1, 2, 3, 3, 4, 4, 5][: 3 + nmax])
    verts = []
    for i in range(1, n + 1):
        ty = rng.choice(conc)
        props = {}
        for p, pty in sc.types[ty]["props"].items():
            props[p] = I(i) if p == "id" else rng.choice(value_pool(pty))
        verts.append({"id": i, "ty": ty, "props": props})
    ids = list(range(1, n + 1))
    enames = sorted({e for t in sc.types.values() for e in t["edges"]})
    adj = {e: [] for e in enames}
    for v in verts:
        for e, d in sc.types[v["ty"]]["edges"].items():
            tgts = [w["id"] for w in verts if sc.subtype(w["ty"], d["to"])]
            if not tgts: continue
            k = rng.choice([0, 1, 1, 2, 3]) if d.get("many", True) else rng.choice([0, 1])
            for _ in range(k): adj[e].append([v["id"], rng.choice(tgts)])
    order = ids[:] if rng.random() < 0.8 else rng.sample(ids, len(ids))
    entry = {}
    for e, d in sc.root.items():
        l = [i for i in order if sc.subtype(verts[i - 1]["ty"], d["to"])]
        entry[e] = l if d.get("many", True) else l[:1]
    return {"verts": verts, "adj": adj, "entry": entry}

# ------------------------------------------------------------------ query ASTs
def prop_node(name, alias="", outputs=(), tags=(), filters=()):
    return {"name": name, "alias": alias, "outputs": [{"name": o} for o in outputs], "tags": [{"name": t} for t in tags], "filters": list(filters)}
def edge_node(edge, mode="plain", depth=0, coerce="", alias="", params=None, props=(), edges=(), count=None):
    n = {"edge": edge, "alias": alias, "params": params or {}, "mode": mode, "depth": depth, "coerce": coerce, "props": list(props), "edges": list(edges)}
    if count is not None: n["count"] = count
    return n
def FVar(op, n): return {"op": op, "arg": {"k": "var", "n": n}}
def FTag(op, n): return {"op": op, "arg": {"k": "tag", "n": n}}
def FNone(op): return {"op": op, "arg": {"k": "none", "n": ""}}

def render_filter(f):
    if f["arg"]["k"] == "none": return f' @filter(op: "{f["op"]}")'
    sig = "$" if f["arg"]["k"] == "var" else "%"
    return f' @filter(op: "{f["op"]}", value: ["{sig}{f["arg"]["n"]}"])'

def render_scope(n, ind=1):
    pad = "  " * ind
    head = (n["alias"] + ": " if n["alias"] else "") + n["edge"]
    if n["params"]: head += "(" + ", ".join(f"{k}: {render_val(v)}" for k, v in n["params"].items()) + ")"
    if n["mode"] == "optional": head += " @optional"
    if n["mode"] == "recurse": head += f' @recurse(depth: {n["depth"]})'
    if n["mode"] == "fold":
        head += " @fold"
        if "count" in n:
            head += ' @transform(op: "count")'
            for f in n["count"]["filters"]: head += render_filter(f)
            for o in n["count"]["outputs"]: head += f' @output(name: "{o["name"]}")' if o["name"] else " @output"
            for t in n["count"]["tags"]: head += f' @tag(name: "{t["name"]}")' if t["name"] else " @tag"
    body = []
    for p in n["props"]:
        s = (p["alias"] + ": " if p["alias"] else "") + p["name"]
        for t in p["tags"]: s += f' @tag(name: "{t["name"]}")' if t["name"] else " @tag"
        for o in p["outputs"]: s += f' @output(name: "{o["name"]}")' if o["name"] else " @output"
        for f in p["filters"]: s += render_filter(f)
        body.append(pad + "  " + s)
    for e in n["edges"]: body += render_scope(e, ind + 1)
    if n["coerce"]:
        body = [pad + "  ... on " + n["coerce"] + " {"] + ["  " + b for b in body] + [pad + "  }"]
    return [pad + head + " {"] + body + [pad + "}"] if body else [pad + head]

def render_query(q): return "{\n" + "\n".join(render_scope(q, 1)) + "\n}"

def make_instance(iid, sc, g, q, args, cls=None, **extra):
    inst = {"id": iid, "schema": sc.record(), "sdl": sc.sdl(), "g": g, "q": q, "text": render_query(q), "args": args, "cls": cls or {}}
    inst.update(extra)
    return inst

def walk_scopes(q):
    yield q
    for e in q["edges"]: yield from walk_scopes(e)
