"""C04 sub-universe (DESIGN 6/C04): filters whose right-hand side is a tag (from the root, from a plain / optional / doubly
optional scope that is sometimes missing, from a fold count, a list-typed tag) or a variable, for every operator with a
candidate-value hint, placed on a neighbour reached by a plain / optional / fold (with and without a forcing count filter) /
recursive (depth 1, 2) edge, directly or one edge further; also two filters on the same property (static + dynamic)."""
import copy, random
from lib import *

SCALAR_OPS = ["=", "!=", "<", "<=", ">", ">="]

def tag_sources():
    t = lambda name="val": prop_node(name, tags=["t"])
    return [
        ("root", [t()], []),
        ("plain", [], [edge_node("peer", "plain", alias="s", props=[t()])]),
        ("optional", [], [edge_node("peer", "optional", alias="s", props=[t()])]),
        ("optional2", [], [edge_node("peer", "optional", alias="s", props=[prop_node("id")], edges=[edge_node("peer", "optional", alias="s2", props=[t()])])]),
        ("count", [], [edge_node("next", "fold", alias="s", props=[prop_node("id")], count={"filters": [], "outputs": [], "tags": [{"name": "t"}]})]),
        ("optional_count", [], [edge_node("peer", "optional", alias="s", props=[prop_node("id")],
                                          edges=[edge_node("next", "fold", alias="sf", props=[prop_node("id")], count={"filters": [], "outputs": [], "tags": [{"name": "t"}]})])]),
    ]

def targets(filters_val):
    """scopes that carry the filtered property `val`"""
    leaf = lambda: prop_node("val", outputs=["tv"], filters=copy.deepcopy(filters_val))
    forcing = {"filters": [FVar(">=", "one")], "outputs": [{"name": "tc"}], "tags": []}
    return [
        ("plain", lambda: edge_node("next", "plain", alias="x", props=[leaf()])),
        ("optional", lambda: edge_node("next", "optional", alias="x", props=[leaf()])),
        ("fold", lambda: edge_node("next", "fold", alias="x", props=[leaf()])),
        ("fold_forced", lambda: edge_node("next", "fold", alias="x", props=[leaf()], count=copy.deepcopy(forcing))),
        ("recurse1", lambda: edge_node("next", "recurse", depth=1, alias="x", props=[leaf()])),
        ("recurse2", lambda: edge_node("next", "recurse", depth=2, alias="x", props=[leaf()])),
        ("plain_plain", lambda: edge_node("next", "plain", alias="x", props=[prop_node("id", outputs=["xid"])], edges=[edge_node("peer", "plain", alias="y", props=[leaf()])])),
        ("plain_optional", lambda: edge_node("next", "plain", alias="x", props=[prop_node("id", outputs=["xid"])], edges=[edge_node("peer", "optional", alias="y", props=[leaf()])])),
        ("coerced", lambda: edge_node("next", "plain", alias="x", coerce="A", props=[leaf()])),
    ]

def hint_instances(tier, seed, start_id=1):
    sc = VS1(); rng = random.Random(seed * 131 + 7)
    ngraphs = 2 if tier == "quick" else 6
    out = []
    for sname, sprops, sedges in tag_sources():
        for op in SCALAR_OPS:
            combos = [("dyn", [FTag(op, "t")]), ("stat+dyn", [FVar(">=", "lo"), FTag(op, "t")]), ("dyn+notnull", [FTag(op, "t"), FNone("is_not_null")])]
            if tier == "quick": combos = combos[:2] if op in ("<", ">=") else combos[:1]
            for cname, fl in combos:
                for tname, mk in targets(fl):
                    for gi in range(ngraphs):
                        g = gen_graph(rng, sc, 5)
                        q = edge_node("Nodes", props=[prop_node("id", outputs=["rid"])] + copy.deepcopy(sprops), edges=copy.deepcopy(sedges) + [mk()])
                        args = {}
                        if cname.startswith("stat"): args["lo"] = I(rng.choice([1, 2]))
                        if tname == "fold_forced": args["one"] = I(1)
                        out.append(make_instance(start_id + len(out), sc, g, q, args, cls={"family": "hints", "source": sname, "op": op, "combo": cname, "target": tname}))
    # list-typed tag with one_of / not_one_of, and purely static filters for every operator
    for op in ("one_of", "not_one_of"):
        for tname, mk in targets([FTag(op, "t")]):
            for gi in range(ngraphs):
                g = gen_graph(rng, sc, 5)
                q = edge_node("Nodes", props=[prop_node("id", outputs=["rid"]), prop_node("tags", tags=["t"])], edges=[mk()])
                out.append(make_instance(start_id + len(out), sc, g, q, {}, cls={"family": "hints", "source": "root_list", "op": op, "combo": "dyn", "target": tname}))
    # purely static filters: every operator x every constant of a small set that includes the special ones (negative, zero)
    consts = [I(-1), I(0), I(2)] if tier == "quick" else [I(-2), I(-1), I(0), I(1), I(2), I(3)]
    for op in SCALAR_OPS + ["one_of", "not_one_of", "is_null", "is_not_null"]:
        for tname, mk in targets([FNone(op)] if op.startswith("is_") else [FVar(op, "v")]):
            for c in ([None] if op.startswith("is_") else consts):
                for gi in range(ngraphs if c is None else 1):
                    g = gen_graph(rng, sc, 5)
                    q = edge_node("Nodes", props=[prop_node("id", outputs=["rid"])], edges=[mk()])
                    args = {} if op.startswith("is_") else {"v": L([c, I(3)]) if "one_of" in op else c}
                    out.append(make_instance(start_id + len(out), sc, g, q, args, cls={"family": "hints", "source": "variable", "op": op, "combo": "stat", "target": tname}))
    return out

if __name__ == "__main__":
    x = hint_instances("quick", 1); print(len(x)); print(x[200]["text"])
