"""The instance universe (DESIGN section 4): families of (schema, graph, query, args) instances."""
import random
from lib import *
from randq import random_instances

def renumber(insts):
    for k, inst in enumerate(insts): inst["id"] = k + 1
    return insts

def semantic_universe(tier, seed, stress=False):
    n = {"quick": 1200, "thorough": 12000}[tier]
    insts = []
    insts += random_instances(seed * 7919 + 1, n, "VS1", stress=stress)
    insts += random_instances(seed * 7919 + 2, n // 3, "VS2", stress=stress)
    insts += random_instances(seed * 7919 + 3, n // 3, "VS3", stress=stress)
    try:
        from systematic import systematic_instances
        insts += systematic_instances(tier, seed)
    except ImportError:
        pass
    return renumber(insts)

def mutated_universe(tier, seed):
    """near-valid queries (gen/badq.py): a valid random query with one or two targeted mutations; most are invalid, some stay valid"""
    import badq
    return badq.frontend_universe(tier, seed)

def spread(insts, n):
    """n instances taken at an even stride over the whole list (every schema and family is represented in proportion), instead of a prefix"""
    if len(insts) <= n: return list(insts)
    step = len(insts) / n
    return [insts[int(k * step)] for k in range(n)]
