"""C19 / C20 / C25 / C26 schema family (DESIGN 4.1): a valid base document and single (thorough: also paired) mutations from a
catalogue that covers every validity rule, duplicate / malformed blocks and naming cases. Documents are abstract records
(names as character lists so the TLA+ side can look at prefixes) rendered to SDL here."""
import copy, itertools
from lib import T, NULL, I, S, E, F2, B, L, render_val, DIRECTIVES

def ty(text): t = T(text); return {"base": t["base"], "mods": t["mods"], "text": t["text"]}
def param(name, t, default=None): return {"name": name, "ty": ty(t), "hasDefault": default is not None, "default": default if default is not None else NULL}
def field(name, t, params=()): return {"name": name, "ty": ty(t), "params": list(params)}
def vtype(name, kind, implements, fields): return {"name": name, "kind": kind, "implements": list(implements), "fields": list(fields)}

def base_doc():
    link = lambda: field("link", "[Base!]", [param("min", "Int", I(0)), param("tag", "String")])
    basef = lambda: [field("id", "Int!"), field("name", "String"), link()]
    midf = lambda: basef() + [field("m", "Int"), field("sub", "[Mid]")]
    return {"nschema": 1, "query": "Root", "scalars": ["Date"], "dirs": ["filter", "tag", "output", "optional", "recurse", "fold", "transform"], "extra": [],
            "types": [vtype("Root", "type", [], [field("Things", "[Base!]!"), field("OneA", "A", [param("x", "Int", I(1))]), field("Mids", "[Mid!]")]),
                      vtype("Base", "interface", [], basef()),
                      vtype("Mid", "interface", ["Base"], midf()),
                      vtype("A", "type", ["Mid", "Base"], midf() + [field("a", "[String!]"), field("toA", "A"), field("flag", "Boolean")]),
                      vtype("B", "type", ["Base"], basef() + [field("b", "Float"), field("toMid", "[Mid!]!", [param("k", "[Int!]", L([I(1), I(2)]))])])]}

def T_(d, n): return next(t for t in d["types"] if t["name"] == n)
def F_(t, n): return next(f for f in t["fields"] if f["name"] == n)

def mutations():
    """(label, function mutating a deep copy of the document)"""
    M = []
    def m(label):
        def deco(fn): M.append((label, fn)); return fn
        return deco
    @m("identity")
    def _(d): pass
    @m("implements_undefined")
    def _(d): T_(d, "B")["implements"].append("Ghost")
    @m("implements_object_type")
    def _(d): T_(d, "B")["implements"].append("A"); T_(d, "B")["fields"] += [f for f in copy.deepcopy(T_(d, "A")["fields"]) if f["name"] not in {x["name"] for x in T_(d, "B")["fields"]}]
    @m("missing_transitive_implements")
    def _(d): T_(d, "A")["implements"].remove("Base")
    @m("missing_inherited_field")
    def _(d): T_(d, "A")["fields"] = [f for f in T_(d, "A")["fields"] if f["name"] != "name"]
    @m("widen_inherited_property")
    def _(d): F_(T_(d, "A"), "id")["ty"] = ty("Int")
    @m("narrow_inherited_property_ok")
    def _(d): F_(T_(d, "A"), "name")["ty"] = ty("String!")
    @m("change_inherited_property_base")
    def _(d): F_(T_(d, "A"), "name")["ty"] = ty("Int")
    @m("inherited_edge_to_unrelated")
    def _(d): F_(T_(d, "A"), "link")["ty"] = ty("[B!]"); F_(T_(d, "Mid"), "link")["ty"] = ty("[A!]")
    @m("inherited_edge_to_subtype_ok")
    def _(d): F_(T_(d, "A"), "link")["ty"] = ty("[Mid!]")
    @m("inherited_edge_to_indirect_subtype")      # A.sub: [A] where Mid.sub: [Mid]; A implements Mid: ok
    def _(d): F_(T_(d, "A"), "sub")["ty"] = ty("[A]")
    @m("inherited_edge_list_shape_changed")
    def _(d): F_(T_(d, "A"), "sub")["ty"] = ty("Mid")
    @m("implements_reordered_ok")
    def _(d): T_(d, "A")["implements"] = ["Base", "Mid"]
    @m("second_listed_interface_narrower_property")      # legal against the first-listed interface, illegal against the second
    def _(d): T_(d, "A")["implements"] = ["Base", "Mid"]; F_(T_(d, "Mid"), "name")["ty"] = ty("String!")
    @m("first_listed_interface_narrower_property")
    def _(d): F_(T_(d, "Mid"), "name")["ty"] = ty("String!")
    @m("second_listed_interface_parameter_narrowed")
    def _(d):
        T_(d, "A")["implements"] = ["Base", "Mid"]
        F_(T_(d, "Base"), "link")["params"][0] = param("min", "Int!", I(0)); F_(T_(d, "B"), "link")["params"][0] = param("min", "Int!", I(0))
        F_(T_(d, "A"), "link")["params"][0] = param("min", "Int!", I(0))         # Mid keeps the widened `min: Int`; A narrows it back
    @m("second_listed_interface_extra_parameter")
    def _(d):
        d["types"].append(vtype("Other", "interface", [], [field("link", "[Base!]", [param("min", "Int", I(0)), param("tag", "String"), param("more", "Int")])]))
        T_(d, "B")["implements"].append("Other")
    @m("drop_inherited_param")
    def _(d): F_(T_(d, "B"), "link")["params"].pop()
    @m("extra_param_on_inherited")
    def _(d): F_(T_(d, "B"), "link")["params"].append(param("extra", "Int"))
    @m("param_type_widened_ok")
    def _(d): F_(T_(d, "Base"), "link")["params"][0] = param("min", "Int!", I(0)); F_(T_(d, "Mid"), "link")["params"][0] = param("min", "Int!", I(0)); F_(T_(d, "A"), "link")["params"][0] = param("min", "Int!", I(0))
    @m("param_type_narrowed")
    def _(d): F_(T_(d, "B"), "link")["params"][0] = param("min", "Int!", I(0))
    @m("param_type_changed_base")
    def _(d): F_(T_(d, "B"), "link")["params"][1] = param("tag", "Int")
    # list depth and inner list levels of inherited properties and parameters
    def add_everywhere(d, f):
        for tn in ("Base", "Mid", "A", "B"): T_(d, tn)["fields"].append(copy.deepcopy(f))
    @m("inherited_property_list_depth_changed")
    def _(d): F_(T_(d, "B"), "name")["ty"] = ty("[String]")
    @m("inherited_property_scalar_for_list")
    def _(d): add_everywhere(d, field("tags", "[Int]")); F_(T_(d, "A"), "tags")["ty"] = ty("Int")
    @m("narrow_inner_list_level_ok")
    def _(d): add_everywhere(d, field("tags", "[Int]")); F_(T_(d, "A"), "tags")["ty"] = ty("[Int!]!"); F_(T_(d, "Mid"), "tags")["ty"] = ty("[Int]!")
    @m("widen_inner_list_level")
    def _(d): add_everywhere(d, field("tags", "[Int!]")); F_(T_(d, "B"), "tags")["ty"] = ty("[Int]")
    @m("widen_outer_keep_inner")
    def _(d): add_everywhere(d, field("tags", "[Int!]!")); F_(T_(d, "A"), "tags")["ty"] = ty("[Int!]")
    @m("inherited_param_list_depth_changed")
    def _(d): F_(T_(d, "B"), "link")["params"][0] = param("min", "[Int]")
    @m("inherited_param_inner_level_narrowed")
    def _(d):
        for tn in ("Base", "Mid", "A", "B"): F_(T_(d, tn), "link")["params"].append(param("ks", "[Int]"))
        F_(T_(d, "A"), "link")["params"][-1] = param("ks", "[Int!]")
    @m("inherited_param_inner_level_widened_ok")
    def _(d):
        for tn in ("Base", "Mid", "A", "B"): F_(T_(d, tn), "link")["params"].append(param("ws", "[Int!]!", L([I(1)])))
        F_(T_(d, "A"), "link")["params"][-1] = param("ws", "[Int]", L([I(1)]))
    @m("three_level_interface_chain_ok")
    def _(d):
        low = vtype("Low", "interface", ["Mid", "Base"], copy.deepcopy(T_(d, "Mid")["fields"]) + [field("low", "Int")])
        d["types"].append(low); d["types"].append(vtype("Leaf", "type", ["Low", "Mid", "Base"], copy.deepcopy(low["fields"])))
    @m("three_level_chain_missing_top")
    def _(d):
        low = vtype("Low", "interface", ["Mid", "Base"], copy.deepcopy(T_(d, "Mid")["fields"]) + [field("low", "Int")])
        d["types"].append(low); d["types"].append(vtype("Leaf", "type", ["Low", "Mid"], copy.deepcopy(low["fields"])))
    @m("three_level_chain_missing_middle_field")
    def _(d):
        low = vtype("Low", "interface", ["Mid", "Base"], copy.deepcopy(T_(d, "Mid")["fields"]) + [field("low", "Int")])
        d["types"].append(low); d["types"].append(vtype("Leaf", "type", ["Low", "Mid", "Base"], [f for f in copy.deepcopy(low["fields"]) if f["name"] != "m"]))
    # the per-field rules also apply to an implementer's own copy of an inherited field (its defaults may legally differ from the interface's)
    @m("inherited_edge_bad_default_on_implementer_only")
    def _(d): F_(T_(d, "B"), "link")["params"][0] = param("min", "Int", S("x"))
    @m("inherited_edge_null_default_for_narrowed_nonnull")
    def _(d):
        for tn in ("Base", "Mid", "A", "B"): F_(T_(d, tn), "link")["params"][0] = param("min", "Int!", I(0))
        F_(T_(d, "A"), "link")["params"][0] = param("min", "Int!", NULL); F_(T_(d, "A"), "link")["params"][0]["hasDefault"] = True
    @m("inherited_edge_different_default_ok")
    def _(d): F_(T_(d, "B"), "link")["params"][0] = param("min", "Int", I(7)); F_(T_(d, "A"), "link")["params"][1] = param("tag", "String", S("t"))
    @m("inherited_property_given_parameter_on_implementer")
    def _(d): F_(T_(d, "B"), "name")["params"] = [param("x", "Int")]
    @m("unknown_field_type")
    def _(d): T_(d, "B")["fields"].append(field("ghost", "Ghost"))
    @m("custom_scalar_property")
    def _(d): T_(d, "B")["fields"].append(field("when", "Date"))
    @m("id_scalar_property_ok")
    def _(d): T_(d, "B")["fields"].append(field("key", "ID!"))
    @m("reserved_type_name")
    def _(d): d["types"].append(vtype("__Hidden", "type", [], [field("id", "Int")]))
    @m("reserved_field_name")
    def _(d): T_(d, "B")["fields"].append(field("__secret", "Int"))
    @m("single_underscore_names_ok")
    def _(d): T_(d, "B")["fields"].append(field("_ok", "Int")); d["types"].append(vtype("_T", "type", [], [field("id", "Int")]))
    @m("edge_into_root")
    def _(d): T_(d, "B")["fields"].append(field("up", "Root"))
    @m("edge_into_root_list")
    def _(d): T_(d, "B")["fields"].append(field("ups", "[Root!]!"))
    @m("property_with_parameter")
    def _(d): T_(d, "B")["fields"].append(field("p", "Int", [param("x", "Int")]))
    @m("default_wrong_kind")
    def _(d): F_(T_(d, "Root"), "OneA")["params"][0] = param("x", "Int", S("one"))
    @m("default_null_for_nonnull")
    def _(d): F_(T_(d, "Root"), "OneA")["params"][0] = param("x", "Int!", NULL); F_(T_(d, "Root"), "OneA")["params"][0]["hasDefault"] = True
    @m("default_null_for_nullable_ok")
    def _(d): F_(T_(d, "Root"), "OneA")["params"][0] = param("x", "Int", NULL); F_(T_(d, "Root"), "OneA")["params"][0]["hasDefault"] = True
    @m("default_scalar_for_list")
    def _(d): F_(T_(d, "B"), "toMid")["params"][0] = param("k", "[Int!]", I(3))
    @m("default_list_with_null_element")
    def _(d): F_(T_(d, "B"), "toMid")["params"][0] = param("k", "[Int!]", L([I(1), NULL]))
    @m("default_float_for_int")
    def _(d): F_(T_(d, "Root"), "OneA")["params"][0] = param("x", "Int", F2(3))
    @m("default_int_for_float")
    def _(d): F_(T_(d, "Root"), "OneA")["params"][0] = param("x", "Float", I(3))
    @m("default_bool_ok")
    def _(d): F_(T_(d, "Root"), "OneA")["params"].append(param("b", "Boolean!", B(True)))
    @m("default_enum_literal")
    def _(d): F_(T_(d, "Root"), "OneA")["params"][0] = param("x", "Int", E("FOO"))
    # the position of the ill-fitting default among several parameters (with and without defaults around it), on an entrypoint and on an edge
    @m("default_bad_after_param_without_default")
    def _(d): F_(T_(d, "Root"), "OneA")["params"] = [param("plain", "Int"), param("x", "String", I(123))]
    @m("default_null_for_nonnull_after_param_without_default")
    def _(d):
        F_(T_(d, "B"), "toMid")["params"] = [param("plain", "Int"), param("k", "Int!", NULL)]; F_(T_(d, "B"), "toMid")["params"][1]["hasDefault"] = True
    @m("default_bad_between_params")
    def _(d): F_(T_(d, "B"), "toMid")["params"] = [param("a", "Int", I(1)), param("plain", "String"), param("k", "[Int!]", L([I(1), NULL])), param("z", "Int")]
    @m("default_bad_before_param_without_default")
    def _(d): F_(T_(d, "Root"), "OneA")["params"] = [param("x", "Int", S("one")), param("plain", "Int")]
    @m("defaults_ok_around_params_without_default")
    def _(d): F_(T_(d, "B"), "toMid")["params"] = [param("plain", "Int"), param("k", "[Int!]", L([I(1)])), param("q", "String"), param("z", "Int!", I(0))]
    @m("edges_of_every_shape_ok")           # T, T!, [T], [T]!, [T!], [T!]! as edges and as entrypoints
    def _(d):
        for k, t in enumerate(("A", "A!", "[A]", "[A]!", "[A!]", "[A!]!")):
            T_(d, "B")["fields"].append(field(f"shape{k}", t)); T_(d, "Root")["fields"].append(field(f"Entry{k}", t, [param("p", "[Int]", L([I(1), NULL]))] if k == 3 else []))
    @m("properties_of_every_shape_ok")
    def _(d):
        for k, t in enumerate(("Int", "Int!", "[Int]", "[Int]!", "[Int!]", "[Int!]!", "[[String]!]", "[[Float!]]!")):
            T_(d, "B")["fields"].append(field(f"prop{k}", t))
    @m("nested_list_edge")
    def _(d): T_(d, "B")["fields"].append(field("grid", "[[A!]]"))
    @m("nested_list_property_ok")
    def _(d): T_(d, "B")["fields"].append(field("matrix", "[[Int!]]"))
    @m("implements_cycle_2")
    def _(d): T_(d, "Base")["implements"].append("Mid")
    @m("implements_self")
    def _(d): T_(d, "Base")["implements"].append("Base")
    @m("ambiguous_field_origin")
    def _(d):
        d["types"].append(vtype("Other", "interface", [], [field("name", "String")]))
        T_(d, "B")["implements"].append("Other")
    @m("diamond_common_origin_ok")
    def _(d):
        d["types"].append(vtype("Side", "interface", ["Base"], copy.deepcopy(T_(d, "Base")["fields"])))
        T_(d, "A")["implements"].append("Side")
    @m("root_property_field")
    def _(d): T_(d, "Root")["fields"].append(field("version", "Int"))
    @m("duplicate_type")
    def _(d): d["types"].append(copy.deepcopy(T_(d, "B")))
    @m("duplicate_field")
    def _(d): T_(d, "B")["fields"].append(field("b", "Float"))
    @m("interface_and_type_same_name")
    def _(d): d["types"].append(vtype("B", "interface", [], [field("id", "Int!")]))
    @m("empty_implements_interface_unused_ok")
    def _(d): d["types"].append(vtype("Lonely", "interface", [], [field("z", "Int")]))
    @m("root_without_entry_to_type_ok")
    def _(d): d["types"].append(vtype("Island", "type", [], [field("z", "Int"), field("self", "Island")]))
    # ---- malformed blocks (today these panic: D13)
    @m("two_schema_blocks")
    def _(d): d["nschema"] = 2
    @m("no_schema_block")
    def _(d): d["nschema"] = 0
    @m("query_type_undefined")
    def _(d): d["query"] = "Nowhere"
    @m("query_type_is_interface")
    def _(d): d["query"] = "Base"
    @m("redefine_builtin_scalar")
    def _(d): d["scalars"].append("Int")
    @m("duplicate_scalar")
    def _(d): d["scalars"].append("Date")
    @m("duplicate_directive")
    def _(d): d["dirs"].append("filter")
    @m("thirty_one_list_levels")
    def _(d): T_(d, "B")["fields"].append({"name": "deep", "ty": {"base": "Int", "mods": [True] * 32, "text": "[" * 31 + "Int" + "]" * 31}, "params": []})
    @m("type_named_like_builtin")
    def _(d): d["types"].append(vtype("String", "type", [], [field("id", "Int")]))
    return M

DIRTEXT = {l.split("@")[1].split("(")[0].split(" ")[0]: l for l in DIRECTIVES.strip().split("\n")}

def render(d):
    out = []
    for _ in range(d["nschema"]): out.append(f"schema {{ query: {d['query']} }}")
    for n in d["dirs"]: out.append(DIRTEXT[n])
    for s in d["scalars"]: out.append(f"scalar {s}")
    for t in d["types"]:
        impl = (" implements " + " & ".join(t["implements"])) if t["implements"] else ""
        out.append(f"{'interface' if t['kind'] == 'interface' else 'type'} {t['name']}{impl} {{")
        for f in t["fields"]:
            ps = ""
            if f["params"]:
                ps = "(" + ", ".join(f"{p['name']}: {p['ty']['text']}" + (f" = {render_val(p['default'])}" if p["hasDefault"] else "") for p in f["params"]) + ")"
            out.append(f"  {f['name']}{ps}: {f['ty']['text']}")
        out.append("}")
    return "\n".join(out) + "\n"

def chars(s): return list(s)
def abstract(d):
    """the record spec/Schema.tla reads: names as character lists"""
    return {"nschema": d["nschema"], "query": chars(d["query"]), "scalars": [chars(s) for s in d["scalars"]], "dirs": [chars(s) for s in d["dirs"]],
            "types": [{"name": chars(t["name"]), "kind": t["kind"], "implements": [chars(x) for x in t["implements"]],
                       "fields": [{"name": chars(f["name"]), "ty": {"base": chars(f["ty"]["base"]), "mods": f["ty"]["mods"]},
                                   "params": [{"name": chars(p["name"]), "ty": {"base": chars(p["ty"]["base"]), "mods": p["ty"]["mods"]}, "hasDefault": p["hasDefault"], "default": p["default"]} for p in f["params"]]}
                                  for f in t["fields"]]} for t in d["types"]]}

def schema_docs(tier):
    ms = mutations(); out = []
    for label, fn in ms:
        d = base_doc(); fn(d); out.append({"label": label, "doc": d})
    if tier != "quick":
        for (l1, f1), (l2, f2) in itertools.combinations(ms[1:], 2):
            d = base_doc()
            try: f1(d); f2(d)
            except Exception: continue
            out.append({"label": l1 + "+" + l2, "doc": d})
    for k, x in enumerate(out):
        x["id"] = k + 1; x["sdl"] = render(x["doc"]); x["abs"] = abstract(x["doc"])
    return out

if __name__ == "__main__":
    ds = schema_docs("quick"); print(len(ds)); print(ds[0]["sdl"])
