"""C22 sub-universe (DESIGN 6/C22): every fold-count filter operator x argument x what observes the fold
(nothing / count output / count tag used in the parent, in a sibling fold, in a nested scope of a sibling fold, in
another fold's count filter / outputs inside / nested fold with outputs or count) x fold sizes 0..4."""
import random
from lib import *

def fold_graph(sc, n=5, shuffle=None):
    """vertex k has k-1 `next` neighbours (fold sizes 0..n-1); val = id; mixed concrete types"""
    verts = []
    for i in range(1, n + 1):
        ty = "A" if i % 2 else "B"
        props = {p: NULL for p in sc.types[ty]["props"]}
        props.update({"id": I(i), "val": I(i), "name": S("ab" if i % 2 else "b"), "tags": L([I(i)])})
        verts.append({"id": i, "ty": ty, "props": props})
    adj = {e: [] for e in sorted({e for t in sc.types.values() for e in t["edges"]})}
    for k in range(1, n + 1):
        for j in range(1, k): adj["next"].append([k, j])
        if k > 1: adj["peer"].append([k, k - 1])
    order = list(range(1, n + 1))
    if shuffle: shuffle.shuffle(order)
    return {"verts": verts, "adj": adj, "entry": {"Nodes": order, "NodesFrom": order, "OneA": [1]}}

OPS = ["=", "!=", "<", "<=", ">", ">=", "one_of", "not_one_of"]
ARGS = [I(-1), I(0), I(1), I(2), I(3), U((1 << 64) - 1)]
LISTS = [L([]), L([I(0), I(2)]), L([I(3)]), L([I(1), U(2)])]

def decorations():
    """(name, count dict extras, body props/edges of the filtered fold, sibling scopes after it)"""
    val_out = lambda n: prop_node("val", outputs=[n])
    out = []
    out.append(("nothing", {}, [prop_node("id")], [], []))
    out.append(("count_output", {"outputs": [{"name": "c"}]}, [prop_node("id")], [], []))
    out.append(("outputs_inside", {}, [val_out("inner")], [], []))
    out.append(("nested_fold_outputs", {}, [prop_node("id")], [edge_node("next", "fold", props=[val_out("nn")])], []))
    out.append(("nested_fold_count", {}, [prop_node("id")], [edge_node("next", "fold", props=[prop_node("id")], count={"filters": [], "outputs": [{"name": "nc"}], "tags": []})], []))
    out.append(("nested_plain_then_fold_outputs", {}, [prop_node("id")], [edge_node("peer", "optional", props=[prop_node("id")], edges=[edge_node("next", "fold", props=[val_out("pn")])])], []))
    # the fold's own body removes elements (a filter, a coercion, a mandatory edge): the count is of the surviving elements, not of the raw neighbours
    out.append(("inner_filter", {}, [prop_node("val", filters=[FVar("<", "m")])], [], [], {"m": I(3)}))
    out.append(("inner_filter_count_output", {"outputs": [{"name": "c"}]}, [prop_node("val", outputs=["inner"], filters=[FVar(">=", "m")])], [], [], {"m": I(2)}))
    out.append(("inner_coercion", {"outputs": [{"name": "c"}]}, [prop_node("id")], [], [], {}, "A"))
    out.append(("inner_mandatory_edge", {}, [prop_node("id")], [edge_node("peer", "plain", props=[prop_node("id")])], [], {}))
    tag = {"tags": [{"name": "c"}]}
    out.append(("tag_parent_filter", tag, [prop_node("id")], [], [edge_node("peer", "optional", alias="p", props=[prop_node("val", outputs=["pv"], filters=[FTag("<=", "c")])])]))
    out.append(("tag_sibling_fold", tag, [prop_node("id")], [], [edge_node("next", "fold", alias="s", props=[prop_node("val", outputs=["sv"], filters=[FTag("<", "c")])])]))
    out.append(("tag_sibling_fold_nested", tag, [prop_node("id")], [], [edge_node("next", "fold", alias="s", props=[prop_node("id", outputs=["sid"])],
                 edges=[edge_node("next", "fold", alias="t", props=[prop_node("val", outputs=["tv"], filters=[FTag(">=", "c")])])])]))
    out.append(("tag_other_count_filter", tag, [prop_node("id")], [], [edge_node("next", "fold", alias="s", props=[prop_node("id")], count={"filters": [FTag(">=", "c")], "outputs": [{"name": "c2"}], "tags": []})]))
    out.append(("tag_sibling_plain_nested_fold", tag, [prop_node("id")], [], [edge_node("peer", "optional", alias="p", props=[prop_node("id", outputs=["pid"])],
                 edges=[edge_node("next", "fold", alias="u", props=[prop_node("val", outputs=["uv"], filters=[FTag("=", "c")])])])]))
    return out

def fold_instances(tier, seed, start_id=1):
    sc = VS1(); rng = random.Random(seed * 31 + 5)
    graphs = [fold_graph(sc, 5), fold_graph(sc, 5, rng)] if tier == "quick" else [fold_graph(sc, 5), fold_graph(sc, 5, rng), fold_graph(sc, 4, rng), fold_graph(sc, 6)]
    out = []
    filtersets = []
    for op in OPS:
        if op in ("one_of", "not_one_of"):
            for l in LISTS: filtersets.append([(op, l)])
        else:
            for a in ARGS: filtersets.append([(op, a)])
    # pairs of bounds: the combined limits of get_min / get_max
    for lo in (I(0), I(1), I(2)):
        for hi in (I(1), I(3)):
            filtersets.append([(">=", lo), ("<=", hi)]); filtersets.append([(">", lo), ("<", hi)]); filtersets.append([(">=", lo), (">", hi)])
    # every unordered pair of operators on the same fold count (how the limits of several filters combine)
    pairsets = []
    def argfor(op, n): return L([I(n), I(n + 2)]) if op in ("one_of", "not_one_of") else I(n)
    for a in range(len(OPS)):
        for b in range(a, len(OPS)):
            for x, y in ((1, 2), (2, 2), (2, 3), (0, 1), (3, 1)):
                pairsets.append([(OPS[a], argfor(OPS[a], x)), (OPS[b], argfor(OPS[b], y))])
                if a != b and (x, y) in ((2, 2), (1, 2)):      # the same two filters written in the other order (how limits combine must not depend on it)
                    pairsets.append([(OPS[b], argfor(OPS[b], y)), (OPS[a], argfor(OPS[a], x))])
    for name, cextra, body_props, body_edges, siblings, *rest in decorations():
        xargs = rest[0] if rest else {}; coerce = rest[1] if len(rest) > 1 else ""
        for fs in filtersets + (pairsets if name in ("nothing", "count_output", "tag_sibling_fold") else []):
            for under in ("root", "optional"):
                if under == "optional" and tier == "quick" and rng.random() < 0.6: continue
                args = dict(xargs); filters = []
                for k, (op, a) in enumerate(fs):
                    args[f"n{k}"] = a; filters.append(FVar(op, f"n{k}"))
                count = {"filters": filters, "outputs": list(cextra.get("outputs", [])), "tags": list(cextra.get("tags", []))}
                import copy
                fold = edge_node("next", "fold", coerce=coerce, props=copy.deepcopy(body_props), edges=copy.deepcopy(body_edges), count=count)
                scope_edges = [fold] + copy.deepcopy(siblings)
                if under == "root":
                    q = edge_node("Nodes", props=[prop_node("id", outputs=["rid"])], edges=scope_edges)
                else:   # the whole construction below an @optional edge that is sometimes missing
                    q = edge_node("Nodes", props=[prop_node("id", outputs=["rid"])], edges=[edge_node("peer", "optional", alias="o", props=[prop_node("id", outputs=["oid"])], edges=scope_edges)])
                g = graphs[len(out) % len(graphs)]
                out.append(make_instance(start_id + len(out), sc, g, q, args, cls={"family": "foldcount", "decor": name, "ops": [f[0] for f in fs], "under": under}))
    return out

if __name__ == "__main__":
    x = fold_instances("quick", 1)
    print(len(x)); print(x[300]["text"], x[300]["args"])
