"""Systematic families added to the seeded random universe (DESIGN 4.3): recursion shapes (incl. the implicit coercion of
get_recurse_implicit_coercion at depth 1..4), and samples of the hint (tags from optional scopes into plain / optional / fold /
recursive scopes) and fold-count families."""
import copy, random
from lib import *

def rec_instances(tier, seed):
    sc = VS2(); rng = random.Random(seed * 53 + 11)
    out = []
    roots = [("Bases", "Base", ["link"]), ("Mids", "Mid", ["link", "sub", "up", "toC"]), ("Cs", "C", ["link", "sub", "up", "toC"])]
    depths = [1, 2, 3, 4]
    ngraphs = 2 if tier == "quick" else 5
    for rname, rty, edges in roots:
        for e in edges:
            tgt = sc.edges(rty)[e]["to"]
            for d in depths:
                variants = []
                leaf = lambda: [prop_node("id", outputs=["rid2"]), prop_node("__typename", outputs=["ty"])]
                variants.append(("outputs", edge_node(e, "recurse", depth=d, props=leaf())))
                variants.append(("filter", edge_node(e, "recurse", depth=d, props=leaf() + [prop_node("val", filters=[FVar(">=", "v")])])))
                subs = [t for t in sc.types if t != tgt and sc.subtype(t, tgt)]
                if subs: variants.append(("coerce", edge_node(e, "recurse", depth=d, coerce=rng.choice(subs), props=leaf())))
                variants.append(("child_optional", edge_node(e, "recurse", depth=d, props=leaf(), edges=[edge_node("link", "optional", props=[prop_node("id", outputs=["lid"])])])))
                variants.append(("child_fold", edge_node(e, "recurse", depth=d, props=leaf(), edges=[edge_node("link", "fold", props=[prop_node("id", outputs=["fid"])], count={"filters": [], "outputs": [{"name": "fc"}], "tags": []})])))
                variants.append(("tag_filter", edge_node(e, "recurse", depth=d, props=leaf() + [prop_node("val", filters=[FTag("<=", "t")])])))
                for vname, scope in variants:
                    if tier == "quick" and d == 4 and vname not in ("outputs", "filter"): continue
                    for wrap in ("direct", "under_optional", "in_fold"):
                        if tier == "quick" and wrap != "direct" and vname in ("child_fold", "coerce") : continue
                        rootprops = [prop_node("id", outputs=["rid"])] + ([prop_node("val", tags=["t"])] if vname == "tag_filter" else [])
                        s2 = copy.deepcopy(scope)
                        if wrap == "direct": q = edge_node(rname, props=rootprops, edges=[s2])
                        elif wrap == "under_optional":
                            if e not in sc.edges(sc.edges(rty)["link"]["to"]) and rty != "Base": pass
                            # recurse from the target of an optional `sub`/`link` edge whose type has edge e
                            via = "sub" if (rty != "Base" and e in sc.edges("Mid")) else "link"
                            vty = sc.edges(rty)[via]["to"]
                            if e not in sc.edges(vty): continue
                            q = edge_node(rname, props=rootprops, edges=[edge_node(via, "optional", alias="o", props=[prop_node("id", outputs=["oid"])], edges=[s2])])
                        else:
                            via = "sub" if (rty != "Base" and e in sc.edges("Mid")) else "link"
                            vty = sc.edges(rty)[via]["to"]
                            if e not in sc.edges(vty): continue
                            q = edge_node(rname, props=rootprops, edges=[edge_node(via, "fold", alias="f", props=[prop_node("id", outputs=["fid0"])], edges=[s2])])
                        for gi in range(ngraphs):
                            g = gen_graph(rng, sc, 6)
                            args = {"v": I(rng.choice([1, 2]))} if vname == "filter" else {}
                            out.append(make_instance(0, sc, g, q, args, cls={"family": "recursion", "edge": e, "depth": d, "variant": vname, "wrap": wrap}))
    return out

def systematic_instances(tier, seed):
    import hintfam, foldfam
    out = rec_instances(tier, seed)
    h = hintfam.hint_instances(tier, seed); f = foldfam.fold_instances(tier, seed)
    out += h[::3] if tier == "quick" else h
    out += f[::5] if tier == "quick" else f[::2]
    return out

if __name__ == "__main__":
    x = rec_instances("quick", 1); print(len(x)); print(x[100]["text"])
    print(len(systematic_instances("quick", 1)))
