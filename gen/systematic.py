"""Systematic families added to the seeded random universe (DESIGN 4.3): recursion shapes (incl. the implicit coercion of
get_recurse_implicit_coercion at depth 1..4), and samples of the hint (tags from optional scopes into plain / optional / fold /
recursive scopes) and fold-count families."""
import copy, random
from lib import *

def rec_instances(tier, seed):
    sc = VS2(); rng = random.Random(seed * 53 + 11)
    out = []
    roots = [("Bases", "Base", ["link"]), ("Mids", "Mid", ["link", "sub", "up", "toC"]), ("Cs", "C", ["link", "sub", "up", "toC"])]
    depths = [1, 2, 3, 4]
    ngraphs = 2 if tier == "quick" else 5
    for rname, rty, edges in roots:
        for e in edges:
            tgt = sc.edges(rty)[e]["to"]
            for d in depths:
                variants = []
                leaf = lambda: [prop_node("id", outputs=["rid2"]), prop_node("__typename", outputs=["ty"])]
                variants.append(("outputs", edge_node(e, "recurse", depth=d, props=leaf())))
                variants.append(("filter", edge_node(e, "recurse", depth=d, props=leaf() + [prop_node("val", filters=[FVar(">=", "v")])])))
                subs = [t for t in sc.types if t != tgt and sc.subtype(t, tgt)]
                if subs: variants.append(("coerce", edge_node(e, "recurse", depth=d, coerce=rng.choice(subs), props=leaf())))
                variants.append(("child_optional", edge_node(e, "recurse", depth=d, props=leaf(), edges=[edge_node("link", "optional", props=[prop_node("id", outputs=["lid"])])])))
                variants.append(("child_fold", edge_node(e, "recurse", depth=d, props=leaf(), edges=[edge_node("link", "fold", props=[prop_node("id", outputs=["fid"])], count={"filters": [], "outputs": [{"name": "fc"}], "tags": []})])))
                variants.append(("tag_filter", edge_node(e, "recurse", depth=d, props=leaf() + [prop_node("val", filters=[FTag("<=", "t")])])))
                for vname, scope in variants:
                    if tier == "quick" and d == 4 and vname not in ("outputs", "filter"): continue
                    for wrap in ("direct", "under_optional", "in_fold"):
                        if tier == "quick" and wrap != "direct" and vname in ("child_fold", "coerce") : continue
                        rootprops = [prop_node("id", outputs=["rid"])] + ([prop_node("val", tags=["t"])] if vname == "tag_filter" else [])
                        s2 = copy.deepcopy(scope)
                        if wrap == "direct": q = edge_node(rname, props=rootprops, edges=[s2])
                        elif wrap == "under_optional":
                            if e not in sc.edges(sc.edges(rty)["link"]["to"]) and rty != "Base": pass
                            # recurse from the target of an optional `sub`/`link` edge whose type has edge e
                            via = "sub" if (rty != "Base" and e in sc.edges("Mid")) else "link"
                            vty = sc.edges(rty)[via]["to"]
                            if e not in sc.edges(vty): continue
                            q = edge_node(rname, props=rootprops, edges=[edge_node(via, "optional", alias="o", props=[prop_node("id", outputs=["oid"])], edges=[s2])])
                        else:
                            via = "sub" if (rty != "Base" and e in sc.edges("Mid")) else "link"
                            vty = sc.edges(rty)[via]["to"]
                            if e not in sc.edges(vty): continue
                            q = edge_node(rname, props=rootprops, edges=[edge_node(via, "fold", alias="f", props=[prop_node("id", outputs=["fid0"])], edges=[s2])])
                        for gi in range(ngraphs):
                            g = gen_graph(rng, sc, 6)
                            args = {"v": I(rng.choice([1, 2]))} if vname == "filter" else {}
                            out.append(make_instance(0, sc, g, q, args, cls={"family": "recursion", "edge": e, "depth": d, "variant": vname, "wrap": wrap}))
    return out

def tag_instances(tier, seed):
    """one tag consumed at every combination (1..3) of use sites: same vertex, plain / optional / recursive scopes, two sibling folds,
    a fold nested in a fold, another fold's count filter; the tag comes from the root or from an @optional scope; plus the same tag
    twice in one fold and two tags on one property."""
    import itertools
    sc = VS1(); rng = random.Random(seed * 71 + 3)
    F = lambda op: [FTag(op, "t")]
    def build(uses, source):
        rootprops = [prop_node("id", outputs=["rid"])]
        edges = []
        if source == "root": rootprops.append(prop_node("val", tags=["t"]))
        else: edges.append(edge_node("peer", "optional", alias="src", props=[prop_node("val", tags=["t"])]))
        if "same_vertex" in uses: rootprops.append(prop_node("id", alias="id2", filters=F(">=")))
        if "plain" in uses: edges.append(edge_node("next", "plain", alias="p", props=[prop_node("val", outputs=["pv"], filters=F("<="))]))
        if "optional" in uses: edges.append(edge_node("peer", "optional", alias="o", props=[prop_node("val", outputs=["ov"], filters=F(">="))]))
        if "foldA" in uses or "nested" in uses:
            props = [prop_node("val", outputs=["av"], filters=F("<") if "foldA" in uses else [])]
            inner = [edge_node("next", "fold", alias="n", props=[prop_node("val", outputs=["nv"], filters=F("="))])] if "nested" in uses else []
            edges.append(edge_node("next", "fold", alias="a", props=props, edges=inner))
        if "foldB" in uses: edges.append(edge_node("next", "fold", alias="b", props=[prop_node("val", outputs=["bv"], filters=F(">"))]))
        if "count" in uses: edges.append(edge_node("next", "fold", alias="c", props=[prop_node("id")], count={"filters": F(">="), "outputs": [{"name": "cc"}], "tags": []}))
        if "recurse" in uses: edges.append(edge_node("next", "recurse", depth=2, alias="r", props=[prop_node("val", outputs=["rv"], filters=F("!="))]))
        return edge_node("Nodes", props=rootprops, edges=edges)
    sites = ["same_vertex", "plain", "optional", "foldA", "foldB", "nested", "count", "recurse"]
    combos = [c for k in (1, 2, 3) for c in itertools.combinations(sites, k)]
    out = []
    for source in ("root", "optional"):
        for uses in combos:
            if tier == "quick" and len(uses) == 3 and rng.random() < 0.6: continue
            for gi in range(1 if tier == "quick" else 3):
                out.append(make_instance(0, sc, gen_graph(rng, sc, 5), build(set(uses), source), {}, cls={"family": "tags", "uses": list(uses), "source": source}))
    # the same tag twice in one fold; two tags on one property, both used in one fold
    twice = edge_node("Nodes", props=[prop_node("id", outputs=["rid"]), prop_node("val", tags=["t"])],
                      edges=[edge_node("next", "fold", alias="a", props=[prop_node("val", outputs=["av"], filters=[FTag(">=", "t"), FTag("!=", "t")]), prop_node("id", filters=[FTag("<=", "t")])])])
    two = edge_node("Nodes", props=[prop_node("id", outputs=["rid"]), prop_node("val", tags=["t", "u"])],
                    edges=[edge_node("next", "fold", alias="a", props=[prop_node("val", outputs=["av"], filters=[FTag(">=", "t"), FTag("<=", "u")])])])
    for q in (twice, two):
        for gi in range(3): out.append(make_instance(0, sc, gen_graph(rng, sc, 5), q, {}, cls={"family": "tags", "uses": ["special"]}))
    # a tag of a CONCRETE type's own property (root OneA: A), other edges walked between the tag and the fold that imports it: the property must be
    # asked of the A vertex again (the vertex active at that moment is a B / some Node reached through the edges in between)
    for between in (["toB"], ["toB", "next"], ["peer"], []):
        mid = [edge_node(e, "plain" if e == "toB" else "optional", alias="m" + str(k), props=[prop_node("id", outputs=["mid" + str(k)])]) for k, e in enumerate(between)]
        for use in ("filter_in_fold", "count_filter"):
            if use == "filter_in_fold": fold = edge_node("next", "fold", alias="f", props=[prop_node("val", outputs=["fv"], filters=[FTag(">=", "t")])])
            else: fold = edge_node("next", "fold", alias="f", props=[prop_node("id")], count={"filters": [FTag(">=", "t")], "outputs": [{"name": "fc"}], "tags": []})
            q = edge_node("OneA", props=[prop_node("id", outputs=["rid"]), prop_node("a", tags=["t"])], edges=mid + [fold])
            import foldfam
            for start in (5, 3):
                g = foldfam.fold_graph(sc, 5)          # odd vertices are A, even ones B; vertex k has k-1 `next` neighbours and a `peer`
                for v in g["verts"]:
                    if v["ty"] == "A": v["props"]["a"] = I(2)
                g["adj"]["toB"] = [[a, b] for a in (1, 3, 5) for b in (2, 4) if b < a or a == 1]
                g["entry"]["OneA"] = [start]
                out.append(make_instance(0, sc, g, q, {}, cls={"family": "tags", "uses": ["concrete_source", use] + between}))
    # several DIFFERENT tags imported into one fold and consumed at different vertices of its body (the order of the import list, and of the
    # property lookups made before entering the fold, must be a function of the query)
    root3 = [prop_node("id", outputs=["rid"]), prop_node("val", tags=["t"]), prop_node("name", tags=["u"]), prop_node("id", alias="id3", tags=["w"])]
    def body(kind):
        inner_props = [prop_node("name", outputs=["in"], filters=[FTag("!=", "u")])]
        deep = [prop_node("id", outputs=["dp"], filters=[FTag(">=", "w")])]
        if kind == "plain": inner = [edge_node("peer", "plain", alias="q", props=inner_props)]
        elif kind == "optional": inner = [edge_node("peer", "optional", alias="q", props=inner_props)]
        elif kind == "two_levels": inner = [edge_node("peer", "plain", alias="q", props=inner_props, edges=[edge_node("next", "optional", alias="d", props=deep)])]
        elif kind == "siblings": inner = [edge_node("peer", "optional", alias="q", props=inner_props), edge_node("next", "optional", alias="d", props=deep)]
        else: inner = [edge_node("next", "fold", alias="q", props=inner_props)]
        return edge_node("next", "fold", alias="a", props=[prop_node("val", outputs=["av"], filters=[FTag("<=", "t")])], edges=inner)
    for kind in ("plain", "optional", "two_levels", "siblings", "nested_fold"):
        q = edge_node("Nodes", props=copy.deepcopy(root3) if kind in ("two_levels", "siblings") else copy.deepcopy(root3[:3]), edges=[body(kind)])
        for gi in range(2 if tier == "quick" else 4):
            out.append(make_instance(0, sc, gen_graph(rng, sc, 5), q, {}, cls={"family": "tags", "uses": ["multi_import", kind]}))
    return out

def nesting_instances(tier, seed):
    """every triple of edge modes (plain / optional / fold / recurse) nested three deep, each level with an output (folds also with a count output),
    over graphs in which some vertices lack the edge - the directive interactions (a fold under a missing optional inside a fold, a recursion
    under an optional, an optional under a recursion, ...) enumerated instead of left to chance; a second variant tags the root and filters the innermost level"""
    import itertools, foldfam
    sc = VS1(); rng = random.Random(seed * 97 + 13)
    graphs = [foldfam.fold_graph(sc, 4), gen_graph(rng, sc, 5), gen_graph(rng, sc, 4)]
    modes = ["plain", "optional", "fold", "recurse"]
    edges_by_level = ["next", "peer", "next"]
    out = []
    for triple in itertools.product(modes, repeat=3):
        for variant in ("outputs", "tag_to_innermost"):
            if tier == "quick" and variant == "tag_to_innermost" and rng.random() < 0.5: continue
            node = None
            for lvl in (2, 1, 0):
                m = triple[lvl]; al = "abc"[lvl]
                props = [prop_node("val", outputs=[f"v{lvl}"])]
                if lvl == 2 and variant == "tag_to_innermost": props.append(prop_node("id", filters=[FTag(">=", "t")]))
                e = edge_node(edges_by_level[lvl], m, depth=2 if m == "recurse" else 0, alias=al, props=props, edges=[node] if node else [])
                if m == "fold": e["count"] = {"filters": [], "outputs": [{"name": f"n{lvl}"}], "tags": []}
                node = e
            rootprops = [prop_node("id", outputs=["rid"])] + ([prop_node("val", tags=["t"])] if variant == "tag_to_innermost" else [])
            q = edge_node("Nodes", props=rootprops, edges=[node])
            g = graphs[len(out) % len(graphs)]
            out.append(make_instance(0, sc, g, q, {}, cls={"family": "nesting", "modes": list(triple), "variant": variant}))
    return out


def sharedvar_instances(tier, seed):
    """one query variable consumed at TWO sites whose implied types differ only in nullability (scalar or list element): a property filter
    (= / one_of / contains / < on Int!, Int, [Int!]) at the root, inside the fold or in a plain child scope, and a fold-count filter
    (= / >= / one_of: Int!, [Int!]!) or a second property filter; both textual orders.  The recorded variable type must be the
    intersection of the implied ones whatever the order of the uses (C12: "the type the query implies for that variable")."""
    import itertools, foldfam
    sc = VS1(); g = foldfam.fold_graph(sc, 4)
    psites = [("id", "="), ("val", "="), ("val", "<"), ("tags", "contains"), ("id", "one_of"), ("val", "one_of"), ("id", "not_one_of"), ("val", "not_one_of")]
    csites = ["=", ">=", "one_of", "not_one_of"]
    islist = lambda op: op in ("one_of", "not_one_of")
    out = []
    def emit(q, lst, cls):
        out.append(make_instance(0, sc, g, q, {"v": L([I(0), I(2)]) if lst else I(1)}, cls=dict(cls, family="sharedvar")))
    for (pp, pop), cop in itertools.product(psites, csites):
        if islist(pop) != islist(cop): continue
        for where in ("root", "in_fold", "sibling_before", "sibling_after"):
            pf = prop_node(pp, filters=[FVar(pop, "v")])
            fold = edge_node("next", "fold", alias="a", props=[prop_node("val", outputs=["v0"])] + ([pf] if where == "in_fold" else []))
            fold["count"] = {"filters": [FVar(cop, "v")], "outputs": [{"name": "n0"}], "tags": []}
            rootprops = [prop_node("id", outputs=["rid"])] + ([pf] if where == "root" else [])
            sib = edge_node("peer", "optional", alias="b", props=[prop_node("name", outputs=["pn"]), pf])
            edges = {"root": [fold], "in_fold": [fold], "sibling_before": [sib, fold], "sibling_after": [fold, sib]}[where]
            emit(edge_node("Nodes", props=rootprops, edges=edges), islist(pop), {"sites": [f"{pp} {pop}", f"count {cop}"], "where": where})
    for (p1, o1), (p2, o2) in itertools.permutations(psites, 2):
        if islist(o1) != islist(o2) or p1 == p2: continue
        child = edge_node("peer", "plain", alias="b", props=[prop_node("name", outputs=["pn"]), prop_node(p2, filters=[FVar(o2, "v")])])
        emit(edge_node("Nodes", props=[prop_node("id", outputs=["rid"]), prop_node(p1, filters=[FVar(o1, "v")])], edges=[child]), islist(o1),
             {"sites": [f"{p1} {o1}", f"{p2} {o2}"], "where": "root_then_child"})
    return out

def systematic_instances(tier, seed):
    import hintfam, foldfam
    out = rec_instances(tier, seed) + tag_instances(tier, seed) + nesting_instances(tier, seed)
    h = hintfam.hint_instances(tier, seed); f = foldfam.fold_instances(tier, seed)
    out += h[::3] if tier == "quick" else h
    out += f[::5] if tier == "quick" else f[::2]
    return out

if __name__ == "__main__":
    x = rec_instances("quick", 1); print(len(x)); print(x[100]["text"])
    print(len(systematic_instances("quick", 1)))
