"""Seeded random source-level queries over an abstract schema (all directive kinds, every filter operator the
typing admits, tags into folds and count filters, coercions, parameters, aliases and explicit output names)."""
from lib import *

STRING_OPS = ["has_prefix", "not_has_prefix", "has_suffix", "not_has_suffix", "has_substring", "not_has_substring", "regex", "not_regex"]

class RandQ:
    def __init__(self, rng, sc, stress=False):
        self.rng, self.sc, self.stress = rng, sc, stress
        self.tags = []      # [name, typetext, path, [used]]
        self.pending = []
        self.ntag = self.nout = self.nvar = self.nfold = 0
        self.vars = {}
        self.varshape = {}

    def newvar(self, val, shape=None):
        """a fresh variable, or (sometimes) an existing one whose uses have the same type up to nullability: the query then implies the
        greatest common subtype of the uses for it (C10-C12); values never contain nulls, so the first value fits every narrowing"""
        if shape is not None:
            shape = shape.replace("!", "")
            same = [n for n, s in self.varshape.items() if s == shape]
            if same and self.rng.random() < 0.25: return self.rng.choice(same)
        self.nvar += 1; n = f"v{self.nvar}"; self.vars[n] = val
        if shape is not None: self.varshape[n] = shape
        return n

    def val_for(self, ty):
        r = self.rng; t = T(ty)
        if len(t["mods"]) > 1:
            inner = ty.rstrip("!")[1:-1]
            return L([self.val_for(inner.rstrip("!")) for _ in range(r.choice([0, 1, 2]))])
        b = t["base"]
        if b == "Int": return I(r.choice([-1, 0, 0, 1, 2, 3]))
        if b == "Float": return F2(r.choice([1, 2, 3]))
        if b == "Boolean": return B(r.random() < 0.5)
        return S(r.choice(["a", "ab", "b", ""]))

    def filt(self, pty, path):
        r = self.rng; base = pty.rstrip("!"); t = T(pty)
        islist = len(t["mods"]) > 1
        ops = []
        if t["mods"][0]: ops += ["is_null", "is_not_null"]
        ops += ["=", "!="]
        if not islist and t["base"] in ("Int", "String", "Float"): ops += ["<", "<=", ">", ">="]
        if islist and t["base"] in ("Int", "String", "Float"): ops += ["<", ">="]      # list-typed operands of ordering filters (C09)
        ops += ["one_of", "not_one_of"]            # on a list-typed property the argument is a list of lists
        if islist: ops += ["contains", "not_contains"]
        if base == "String": ops += STRING_OPS
        op = r.choice(ops)
        if op in ("is_null", "is_not_null"): return FNone(op)
        if op in ("contains", "not_contains"): aty = base[1:-1].rstrip("!")
        elif op in ("one_of", "not_one_of"): aty = "[" + base + "]"
        else: aty = base
        cands = [t for t in self.tags if t[1].rstrip("!") == aty and t[2] == path[:len(t[2])]]
        if cands and r.random() < 0.5:
            t = r.choice(cands); t[3][0] = True
            return FTag(op, t[0])
        if op in ("one_of", "not_one_of"):
            val = L([self.val_for(base) for _ in range(r.choice([0, 1, 2]))])
            # a nullable property makes the elements of the list nullable: a null after a first non-null element is a legal argument
            if t["mods"][0] and val["v"] and r.random() < 0.3: val["v"].insert(r.randint(1, len(val["v"])), NULL)
        elif op in ("regex", "not_regex"):
            val = S(r.choice(["a", "^a", "b$", "^ab$", "", "^$"] + (["(", "[", "a{2"] if self.stress else [])))
        else: val = self.val_for(aty)
        shape = "[" + base + "]" if op in ("one_of", "not_one_of") else ("String" if op in STRING_OPS else aty)
        return FVar(op, self.newvar(val, shape))

    def scope(self, ty, depth, path, prefix_used):
        r = self.rng; sc = self.sc
        props = []
        allp = sc.props(ty)
        names = list(allp.keys())
        for pname in r.sample(names, min(len(names), r.choice([0, 1, 1, 2, 3]))):
            pty = allp[pname]
            p = prop_node(pname)
            if r.random() < 0.15: p["alias"] = f"al{self.nout + self.ntag + len(props)}"
            if r.random() < 0.6:
                self.nout += 1
                # explicit names mostly; implicit (alias-or-name with prefixes) sometimes
                p["outputs"].append({"name": f"o{self.nout}" if r.random() < 0.8 else ""})
            if r.random() < 0.35 and pname != "__typename":
                p["filters"].append(self.filt(pty, path))
                if r.random() < 0.2: p["filters"].append(self.filt(pty, path))
            if r.random() < 0.3:
                self.ntag += 1; tn = f"t{self.ntag}"; p["tags"].append({"name": tn})
                self.pending.append([tn, pty, path, [False]])
            props.append(p)
            # a tag is usable by the filters of later properties of the same vertex as well
            self.tags += self.pending; self.pending = []
        edges = []
        if depth < 3:
            enames = list(sc.edges(ty).keys())
            for _ in range(r.choice([0, 1, 1, 2] if depth < 2 else [0, 0, 1])):
                if not enames: break
                ename = r.choice(enames); d = sc.edges(ty)[ename]
                tgt = d["to"]
                mode = r.choice(["plain", "plain", "optional", "optional", "fold", "fold", "recurse"])
                e = edge_node(ename, mode)
                if r.random() < 0.2: e["alias"] = f"e{self.nfold + depth + len(edges)}x"
                for pn, pd in d.get("params", {}).items():
                    nullable = T(pd["type"])["mods"][0]
                    if (not nullable and "default" not in pd) or r.random() < 0.3:     # a required parameter is always given
                        e["params"][pn] = NULL if nullable and r.random() < 0.25 else (r.choice([I(1), I(2), I(3)]) if pd["type"].rstrip("!") == "Int" else self.val_for(pd["type"]))
                if mode == "recurse": e["depth"] = r.choice([1, 2, 3])
                cty = tgt
                subs = [t for t in sc.types if t != tgt and sc.subtype(t, tgt)]
                if subs and r.random() < 0.25:
                    e["coerce"] = r.choice(subs); cty = e["coerce"]
                npath = path
                if mode == "fold":
                    self.nfold += 1; npath = path + (self.nfold,)
                sub = self.scope(cty, depth + 1, npath, prefix_used)
                e["props"], e["edges"] = sub["props"], sub["edges"]
                if e["coerce"] and not e["props"] and not e["edges"]:
                    e["props"] = [prop_node("id")]
                if mode == "fold" and r.random() < 0.6:
                    c = {"filters": [], "outputs": [], "tags": []}
                    if r.random() < 0.6:
                        op = r.choice(["=", "!=", "<", "<=", ">", ">=", "one_of", "not_one_of"])
                        cands = [t for t in self.tags if t[1].rstrip("!") == "Int" and t[2] == path[:len(t[2])]]
                        if op not in ("one_of", "not_one_of") and cands and r.random() < 0.3:
                            t = r.choice(cands); t[3][0] = True; arg = {"k": "tag", "n": t[0]}
                        elif op in ("one_of", "not_one_of"):
                            arg = {"k": "var", "n": self.newvar(L([I(r.choice([-1, 0, 1, 2, 3])) for _ in range(r.choice([0, 1, 2]))]), "[Int]")}
                        else:
                            arg = {"k": "var", "n": self.newvar(I(r.choice([-1, 0, 1, 1, 2, 2, 3])), "Int")}
                        c["filters"].append({"op": op, "arg": arg})
                    if r.random() < 0.5:
                        self.nout += 1; c["outputs"].append({"name": f"o{self.nout}" if r.random() < 0.8 else ""})
                    if r.random() < 0.4:
                        self.ntag += 1; tn = f"t{self.ntag}"; c["tags"].append({"name": tn})
                        self.tags.append([tn, "Int!", path, [False]])
                    e["count"] = c
                edges.append(e)
        return {"props": props, "edges": edges}

    def build(self):
        r = self.rng; sc = self.sc
        root = r.choice(list(sc.root.keys()))
        d = sc.root[root]; ty = d["to"]
        q = edge_node(root)
        for pn, pd in d.get("params", {}).items():
            nullable = T(pd["type"])["mods"][0]
            if r.random() < 0.7 or (not nullable and "default" not in pd):
                q["params"][pn] = I(r.choice([0, 1, 2, 3])) if pd["type"].rstrip("!") == "Int" else (NULL if nullable and r.random() < 0.3 else self.val_for(pd["type"]))
        subs = [t for t in sc.types if t != ty and sc.subtype(t, ty)]
        if subs and r.random() < 0.15: q["coerce"] = r.choice(subs); ty = q["coerce"]
        sub = self.scope(ty, 0, (), False)
        q["props"], q["edges"] = sub["props"], sub["edges"]
        if not q["props"] and not q["edges"]:
            q["props"] = [prop_node("id", outputs=["rid"])]
        unused = {t[0] for t in self.tags if not t[3][0]}
        def strip(n):
            for p in n["props"]: p["tags"] = [t for t in p["tags"] if t["name"] not in unused]
            for e in n["edges"]:
                if "count" in e: e["count"]["tags"] = [t for t in e["count"]["tags"] if t["name"] not in unused]
                strip(e)
        strip(q)
        return q, self.vars

def random_instances(seed, count, schema_name="VS1", start_id=1, stress=False, nmax=5):
    rng = random.Random(seed); sc = SCHEMAS[schema_name]()
    out = []
    for i in range(count):
        g = gen_graph(rng, sc, nmax)
        q, args = RandQ(rng, sc, stress).build()
        out.append(make_instance(start_id + i, sc, g, q, args, cls={"family": "random", "schema": schema_name}))
    return out

if __name__ == "__main__":
    import sys
    seed, count, path = int(sys.argv[1]), int(sys.argv[2]), sys.argv[3]
    name = sys.argv[4] if len(sys.argv) > 4 else "VS1"
    with open(path, "w") as f:
        for inst in random_instances(seed, count, name): f.write(json.dumps(inst) + "\n")
