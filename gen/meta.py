"""C23: metamorphic transformations of source-level queries (DESIGN 6/C23). Each case is (relation, [instances]):
   subset      rows(T) is a sub-bag of rows(base)        add a filter (outside folds)
   superset    rows(base) is a sub-bag of rows(T)        deeper recursion / make an edge @optional (outside folds)
   equal       same bag                                   parameter <-> filter, '=' <-> one_of [x], sibling reordering
   renamed     same bag after renaming output names       renaming outputs and tags
   partition   rows(base) = rows(f) + rows(not f)         a filter and its negation outside optional / fold scopes"""
import copy, random
from lib import *

NEG = {"=": "!=", "one_of": "not_one_of", "contains": "not_contains", "has_prefix": "not_has_prefix", "has_suffix": "not_has_suffix",
       "has_substring": "not_has_substring", "regex": "not_regex", "is_null": "is_not_null"}

def paths(q, under_fold=False, under_opt=False, path=()):
    """(path, node, static type unknown) for every scope with flags"""
    yield path, q, under_fold, under_opt
    for k, e in enumerate(q["edges"]):
        yield from paths(e, under_fold or e["mode"] == "fold", under_opt or e["mode"] == "optional", path + (k,))

def at(q, path):
    n = q
    for k in path: n = n["edges"][k]
    return n

def scope_type(sc, q, path):
    ty = q["coerce"] or sc.root[q["edge"]]["to"]
    n = q
    for k in path:
        n = n["edges"][k]
        ty = n["coerce"] or sc.edges(ty)[n["edge"]]["to"]
    return ty

def fresh_var(args):
    k = 1
    while f"m{k}" in args: k += 1
    return f"m{k}"

def variants(inst, rng, sc):
    """yields (relation, [instance dicts]) built from a base instance"""
    q0 = inst["q"]; args0 = inst["args"]
    scopes = list(paths(q0))
    def mk(q, args, tag, **extra):
        return make_instance(0, sc, inst["g"], q, args, cls={"family": "meta", "rel": tag}, **extra)
    # 1. add a filter at a scope outside folds
    cands = [(p, n) for p, n, uf, uo in scopes if not uf]
    if cands:
        p, _ = rng.choice(cands)
        q = copy.deepcopy(q0); n = at(q, p); ty = scope_type(sc, q0, p)
        pname, pty = rng.choice([(a, b) for a, b in sc.props(ty).items() if a != "__typename" and not T(b)["mods"][1:]])
        args = dict(args0); v = fresh_var(args)
        base = T(pty)["base"]
        op = rng.choice(["=", "!=", "<", ">=", "one_of"] if base != "Boolean" else ["=", "!="])
        val = {"Int": I(rng.choice([1, 2, 3])), "String": S(rng.choice(["a", "ab", "b"])), "Float": F2(rng.choice([1, 2])), "Boolean": B(True)}[base]
        args[v] = L([val]) if op == "one_of" else val
        n["props"].append(prop_node(pname, filters=[FVar(op, v)]))
        yield "subset", [inst, mk(q, args, "add_filter")]
    # 1b. add a filter on a fold's count (fold not nested in another fold): rows can only disappear; and the partition by a count filter and its negation
    folds = [(p, n) for p, n, uf, uo in scopes if n["mode"] == "fold" and p and not any(at(q0, p[:k])["mode"] == "fold" for k in range(1, len(p)))]
    if folds:
        p, _ = rng.choice(folds)
        q = copy.deepcopy(q0); n = at(q, p); args = dict(args0); v = fresh_var(args)
        op = rng.choice(["=", "!=", "<", "<=", ">", ">=", "one_of", "not_one_of"])
        args[v] = L([I(rng.choice([0, 1, 2])), I(3)]) if "one_of" in op else I(rng.choice([0, 1, 2, 3]))
        n.setdefault("count", {"filters": [], "outputs": [], "tags": []})["filters"].append(FVar(op, v))
        yield "subset", [inst, mk(q, args, "add_count_filter")]
        if op in NEG and not any(uo2 for p2, n2, uf2, uo2 in scopes if p2 == p):
            qn = copy.deepcopy(q); at(qn, p)["count"]["filters"][-1]["op"] = NEG[op]
            yield "partition", [inst, mk(q, args, "count_filter"), mk(qn, args, "negated_count_filter")]
    # 2. deeper recursion
    recs = [(p, n) for p, n, uf, uo in scopes if n["mode"] == "recurse" and not uf]
    if recs:
        p, _ = rng.choice(recs)
        q = copy.deepcopy(q0); at(q, p)["depth"] += 1
        yield "superset", [inst, mk(q, args0, "deeper_recursion")]
    # 3. make a plain edge optional
    plains = [(p, n) for p, n, uf, uo in scopes if p and n["mode"] == "plain" and not uf]
    if plains:
        p, _ = rng.choice(plains)
        q = copy.deepcopy(q0); at(q, p)["mode"] = "optional"
        yield "superset", [inst, mk(q, args0, "make_optional")]
    # 4. parameterised edge == filter (plain or fold edges, non-null parameter)
    pars = [(p, n) for p, n, uf, uo in scopes if p and n["edge"] == "next" and n["mode"] in ("plain", "fold") and "min" in n["params"] and n["params"]["min"]["k"] == "int"]
    if pars:
        p, _ = rng.choice(pars)
        q = copy.deepcopy(q0); n = at(q, p); args = dict(args0); v = fresh_var(args)
        args[v] = n["params"].pop("min")
        n["props"].append(prop_node("val", filters=[FVar(">=", v)]))
        yield "equal", [inst, mk(q, args, "param_as_filter")]
    # 5. '=' == one_of [x]
    eqs = [(p, i, j) for p, n, uf, uo in scopes for i, pr in enumerate(n["props"]) for j, f in enumerate(pr["filters"]) if f["op"] == "=" and f["arg"]["k"] == "var"]
    if eqs:
        p, i, j = rng.choice(eqs)
        q = copy.deepcopy(q0); f = at(q, p)["props"][i]["filters"][j]; args = dict(args0); v = fresh_var(args)
        args[v] = L([args0[f["arg"]["n"]]]) if f["arg"]["n"] in args0 else L([])
        if f["arg"]["n"] in args0:
            f["op"] = "one_of"; f["arg"] = {"k": "var", "n": v}
            yield "equal", [inst, mk(q, args, "eq_as_one_of")]
    # 5b. the same on a fold's count (the engine's count is unsigned, the argument a signed integer), for `=` and, as `!=` / not_one_of, its negation
    ceqs = [(p, j) for p, n, uf, uo in scopes if n["mode"] == "fold" and "count" in n for j, f in enumerate(n["count"]["filters"]) if f["op"] in ("=", "!=") and f["arg"]["k"] == "var" and f["arg"]["n"] in args0]
    if ceqs:
        p, j = rng.choice(ceqs)
        q = copy.deepcopy(q0); f = at(q, p)["count"]["filters"][j]; args = dict(args0); v = fresh_var(args)
        args[v] = L([args0[f["arg"]["n"]]])
        f["op"] = "one_of" if f["op"] == "=" else "not_one_of"; f["arg"] = {"k": "var", "n": v}
        used = [ff["arg"]["n"] for _, n, _, _ in paths(q) for pr in n["props"] for ff in pr["filters"] if ff["arg"]["k"] == "var"] + \
               [ff["arg"]["n"] for _, n, _, _ in paths(q) if "count" in n for ff in n["count"]["filters"] if ff["arg"]["k"] == "var"]
        args = {k: x for k, x in args.items() if k in used}
        yield "equal", [inst, mk(q, args, "count_eq_as_one_of")]
    # 6. filter / negation partition (scope not under optional or fold; the scope itself may be optional? no: outside missing optional scopes)
    fs = [(p, i, j) for p, n, uf, uo in scopes if not uf and not uo for i, pr in enumerate(n["props"]) for j, f in enumerate(pr["filters"]) if f["op"] in NEG and f["arg"]["k"] in ("var", "none")]
    if fs:
        p, i, j = rng.choice(fs)
        qn = copy.deepcopy(q0); f = at(qn, p)["props"][i]["filters"][j]; f["op"] = NEG[f["op"]]
        qb = copy.deepcopy(q0); removed = at(qb, p)["props"][i]["filters"].pop(j)
        argsb = dict(args0)
        used = [ff["arg"]["n"] for _, n, _, _ in paths(qb) for pr in n["props"] for ff in pr["filters"] if ff["arg"]["k"] == "var"] + \
               [ff["arg"]["n"] for _, n, _, _ in paths(qb) if "count" in n for ff in n["count"]["filters"] if ff["arg"]["k"] == "var"]
        if removed["arg"]["k"] == "var" and removed["arg"]["n"] not in used: argsb.pop(removed["arg"]["n"], None)
        yield "partition", [mk(qb, argsb, "no_filter"), inst, mk(qn, args0, "negated_filter")]
    # 6b. the same partition for a filter whose argument is a TAG taken from the same (existing) vertex - the tagged VALUE may well be null:
    #     every operator that has a negation, with every pair of properties whose types fit it
    cands = [(p, n) for p, n, uf, uo in scopes if not uf and not uo]
    if cands:
        p, _ = rng.choice(cands); ty = scope_type(sc, q0, p)
        props = [(a, T(b)) for a, b in sc.props(ty).items() if a != "__typename"]
        choices = []
        for a, ta in props:
            for b, tb in props:
                if ta["base"] != tb["base"]: continue
                da, db = len(ta["mods"]), len(tb["mods"])
                if da == db:
                    choices.append((a, b, "="))
                    if da == 1 and ta["base"] == "String": choices += [(a, b, o) for o in ("has_prefix", "has_suffix", "has_substring", "regex")]
                if db == da + 1: choices.append((a, b, "one_of"))
                if da == db + 1: choices.append((a, b, "contains"))
        if choices:
            a, b, op = rng.choice(choices)
            q = copy.deepcopy(q0); n = at(q, p)
            n["props"].append(prop_node(b, tags=["zq"])); n["props"].append(prop_node(a, filters=[FTag(op, "zq")]))
            qn = copy.deepcopy(q); at(qn, p)["props"][-1]["filters"][0]["op"] = NEG[op]
            yield "partition", [inst, mk(q, args0, "tag_filter"), mk(qn, args0, "negated_tag_filter")]
    # 7. renaming outputs and tags
    q = copy.deepcopy(q0); ren = []
    def rename(n, prefix):
        for pr in n["props"]:
            for o in pr["outputs"]:
                if o["name"]: ren.append([o["name"], "zz_" + o["name"]]); o["name"] = "zz_" + o["name"]
            for t in pr["tags"]:
                if t["name"]: t["name"] = "yy_" + t["name"]
            for f in pr["filters"]:
                if f["arg"]["k"] == "tag": f["arg"]["n"] = "yy_" + f["arg"]["n"]
        for e in n["edges"]:
            if "count" in e:
                for o in e["count"]["outputs"]:
                    if o["name"]: ren.append([o["name"], "zz_" + o["name"]]); o["name"] = "zz_" + o["name"]
                for t in e["count"]["tags"]:
                    if t["name"]: t["name"] = "yy_" + t["name"]
                for f in e["count"]["filters"]:
                    if f["arg"]["k"] == "tag": f["arg"]["n"] = "yy_" + f["arg"]["n"]
            rename(e, prefix)
    implicit_tags = any(not t["name"] for _, n, _, _ in scopes for pr in n["props"] for t in pr["tags"])
    if not implicit_tags:
        rename(q, "")
        if ren: yield "renamed", [inst, mk(q, args0, "renamed", ren=ren)]
    # 8. sibling reordering (properties reversed; edges reversed when no tag crosses them)
    q = copy.deepcopy(q0)
    for _, n, _, _ in paths(q): n["props"].reverse()
    yield "equal", [inst, mk(q, args0, "props_reordered")]
    has_tags = any(pr["tags"] for _, n, _, _ in scopes for pr in n["props"]) or any("count" in n and n["count"]["tags"] for _, n, _, _ in scopes)
    if not has_tags and any(len(n["edges"]) > 1 for _, n, _, _ in scopes):
        q = copy.deepcopy(q0)
        for _, n, _, _ in paths(q): n["edges"].reverse()
        # the elements of a folded list come in the enumeration order of the folded subquery, which reordering the edges inside
        # that subquery legitimately permutes: there the lists are compared as bags ("the same contents"), elsewhere exactly
        inside = any(uf and len(n["edges"]) > 1 for _, n, uf, _ in scopes)
        yield ("equal_foldbag" if inside else "equal"), [inst, mk(q, args0, "edges_reordered")]

def count_filter_cases(tier, seed):
    """systematic: a second count filter added to a fold that already has one (every operator pair), on folds that nothing observes
    (where the engine may stop materialising early) and on folds whose count is output; plus the partition by the added filter and its negation"""
    import foldfam
    sc = VS1(); cases = []
    bases = [i for i in foldfam.fold_instances("quick", seed) if i["cls"]["decor"] in ("nothing", "count_output") and i["cls"]["under"] == "root" and len(i["cls"]["ops"]) == 1
             and i["args"]["n0"]["k"] == "int" and unlimbs(i["args"]["n0"]["v"]) in (1, 2)]
    bases = bases[:: (3 if tier == "quick" else 1)]
    for b in bases:
        for op in ["=", "!=", "<", "<=", ">", ">=", "one_of", "not_one_of"]:
            for a in (1, 2, 3):
                q = copy.deepcopy(b["q"]); args = dict(b["args"])
                args["n9"] = L([I(a), I(a + 2)]) if "one_of" in op else I(a)
                q["edges"][0]["count"]["filters"].append(FVar(op, "n9"))
                t = make_instance(0, sc, b["g"], q, args, cls={"family": "meta", "rel": "add_second_count_filter"})
                cases.append({"rel": "subset", "insts": [b, t], "kind": "add_second_count_filter"})
                if op in NEG:
                    qn = copy.deepcopy(q); qn["edges"][0]["count"]["filters"][-1]["op"] = NEG[op]
                    cases.append({"rel": "partition", "insts": [b, t, make_instance(0, sc, b["g"], qn, args, cls={"family": "meta", "rel": "negated_second_count_filter"})], "kind": "partition_by_count_filter"})
    return cases

def meta_cases(base_insts, seed, tier="quick"):
    rng = random.Random(seed * 17 + 3)
    cases = count_filter_cases(tier, seed)
    for inst in base_insts:
        sc = SCHEMAS[inst["schema"]["name"]]()
        for rel, group in variants(inst, rng, sc):
            cases.append({"rel": rel, "insts": group, "kind": group[-1]["cls"]["rel"] if rel != "partition" else "partition"})
    return cases
