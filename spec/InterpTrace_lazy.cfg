CONSTANTS
  Cap = 1
  Eager = FALSE
  MaxRequests = 0
INIT TraceInit
NEXT TraceNext
VIEW TraceView
INVARIANTS NoPanic TypeOK LentIffInCall Lazy Accepted Diag
CHECK_DEADLOCK FALSE
