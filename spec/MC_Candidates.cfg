INIT Init
NEXT Next
INVARIANT ModelLaws
INVARIANT NormalForms
INVARIANT Dump
CHECK_DEADLOCK FALSE
