----------------------------- MODULE MC_Interp -----------------------------
(***************************************************************************)
(* Exhaustive exploration of Interp over every adapter schedule (bounded   *)
(* buffer Cap, eager pulls inside calls) for the instances in IOEnv.INST.  *)
(* Each instance carries the IR exported by the real frontend, the rows    *)
(* the real engine returned without batching (`expected`), and the source  *)
(* query for Sem.  Checked in every reachable state / at the end:          *)
(*   NoPanic, TypeOK, LentIffInCall (C02, C09), Lazy (C03),                *)
(*   RowsPrefix / RowsFinal: under EVERY schedule the row SEQUENCE is the  *)
(*   real engine's (C02 determinacy, C22 early termination invisible),     *)
(*   SemFinal: its bag is the declarative semantics' (C01).                *)
(***************************************************************************)
EXTENDS Interp, Json, IOUtils, TLCExt

\* a finished run stutters, so that TLC's deadlock check (on in every cfg) flags exactly the states in which the engine is STUCK:
\* still running, but no action of the specification enabled (C09 "or ends", C02 "every policy yields the results")
MCNext == \/ Next /\ l' = l
          \/ phase \in {"Done", "Panic"} /\ UNCHANGED vars /\ l' = l
SimNext == Next /\ l' = l      \* simulation (binding A): a behaviour ends where the run ends
Expected == Inst.expected
RowsPrefix == Len(rows) <= Len(Expected) /\ \A j \in 1..Len(rows) : RowEq(rows[j], Expected[j])
RowsFinal == phase = "Done" => Len(rows) = Len(Expected)
SemFinal == phase = "Done" => BagEq(Rows(Inst), rows)
\* one line per completed behaviour, for replay against the real engine (binding A)
Report == IF IOEnv.REPORT = "1" /\ phase = "Done" THEN PrintT(<<"SCHED", Inst.id, ToJson(sched)>>) ELSE TRUE
Done == phase = "Done"
=============================================================================
