CONSTANTS
  Threads = {1, 2, 3}
  Cells = {"builtin_scalars", "non_null_int", "typename_field"}
  Ops <- MCOps
SPECIFICATION Spec
INVARIANTS SameAsSequential InitialisedOnce
PROPERTIES WriteOnce AllDone
CHECK_DEADLOCK FALSE
