CONSTANT MaxLen = 4
INIT Init
NEXT Next
INVARIANTS TypeOK FoldDiscipline Agreement Report
CHECK_DEADLOCK FALSE
