CONSTANTS
  Cap = 3
  Eager = TRUE
  MaxRequests = 0
INIT TraceInit
NEXT TraceNext
VIEW TraceView
INVARIANTS NoPanic TypeOK LentIffInCall Accepted Diag
CHECK_DEADLOCK FALSE
