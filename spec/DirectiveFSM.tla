---------------------------- MODULE DirectiveFSM ----------------------------
(***************************************************************************)
(* C10 (DESIGN 3.2, C.1): the one state-machine part of the query parser - *)
(* how the directive list of one field is grouped by                       *)
(* make_field_connection / make_fold_group / make_transform_group (edge    *)
(* side) and make_field_node / make_transform_group (field side) - and the *)
(* document-shape automaton of try_get_query_root.                         *)
(*                                                                         *)
(* The machine reads one directive per step.  Its reachable states, up to  *)
(* MaxLen directives, ARE the input space of C10: every state is printed   *)
(* (sequence + predicted parse-level class) and each sequence is rendered  *)
(* into real query documents by the driver.                                *)
(***************************************************************************)
EXTENDS Naturals, Sequences, TLC, Json
CONSTANT MaxLen
Alphabet == {"filter", "output", "tag", "transform", "optional", "recurse", "fold", "bogus"}
VARIABLES seq,      \* directives read so far
          conn,     \* edge-side pass: [st, opt, rec, err]
          node      \* field-side pass: [st, err]
Init == seq = <<>> /\ conn = [st |-> "Start", opt |-> FALSE, rec |-> FALSE, err |-> ""] /\ node = [st |-> "Start", err |-> ""]

ConnStep(c, d) ==
  IF c.err # "" THEN c
  ELSE CASE c.st = "Start" ->
              (CASE d = "optional" -> IF c.opt THEN [c EXCEPT !.err = "DuplicatedDirective"] ELSE [c EXCEPT !.opt = TRUE]
                 [] d = "recurse"  -> IF c.rec THEN [c EXCEPT !.err = "DuplicatedDirective"] ELSE [c EXCEPT !.rec = TRUE]
                 [] d = "fold"     -> [c EXCEPT !.st = "AfterFold"]
                 [] d = "transform" -> [c EXCEPT !.err = "DirectivePosition"]
                 [] OTHER -> c)
         [] c.st = "AfterFold" ->
              (CASE d = "transform" -> [c EXCEPT !.st = "InTransform"]
                 [] d = "fold" -> [c EXCEPT !.err = "DuplicatedDirective"]
                 [] OTHER -> [c EXCEPT !.err = "DirectivePosition"])
         [] c.st = "InTransform" ->
              (CASE d \in {"filter", "output", "tag", "transform"} -> c
                 [] OTHER -> [c EXCEPT !.err = "DirectivePosition"])
NodeStep(n, d) ==
  IF n.err # "" THEN n
  ELSE CASE n.st = "Start" -> IF d = "transform" THEN [n EXCEPT !.st = "InTransform"] ELSE n
         [] n.st = "InTransform" -> IF d \in {"filter", "output", "tag", "transform"} THEN n ELSE [n EXCEPT !.err = "DirectivePosition"]
Read(d) ==
  /\ Len(seq) < MaxLen
  /\ seq' = Append(seq, d)
  /\ conn' = ConnStep(conn, d)
  /\ node' = NodeStep(node, d)
Next == \E d \in Alphabet : Read(d)

\* make_directives parses the whole list first: an unknown directive anywhere wins; then the edge-side pass, then the field-side pass
HasBogus == \E j \in 1..Len(seq) : seq[j] = "bogus"
ParseClass == IF HasBogus THEN "UnrecognizedDirective" ELSE IF conn.err # "" THEN conn.err ELSE IF node.err # "" THEN node.err ELSE "ok"
Retransform == Len(SelectSeq(seq, LAMBDA d : d = "transform")) >= 2
\* properties of the machine itself
TypeOK == conn.st \in {"Start", "AfterFold", "InTransform"} /\ node.st \in {"Start", "InTransform"}
\* after @fold the edge side only ever accepts @transform and then value directives
FoldDiscipline == (conn.err = "" /\ conn.st = "InTransform") => \E j \in 1..Len(seq) : seq[j] = "fold" /\ j < Len(seq) /\ seq[j + 1] = "transform"
\* the two passes agree once a transform group is open: both are InTransform or an error was raised
Agreement == (conn.err = "" /\ node.err = "" /\ conn.st = "InTransform") => node.st = "InTransform"
Report == PrintT(<<"SEQ", ToJson(seq), ParseClass, Retransform>>)
=============================================================================
