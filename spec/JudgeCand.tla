------------------------------ MODULE JudgeCand ------------------------------
(***************************************************************************)
(* C06 binding A: the real intersect / normalize / exclude_single_value /  *)
(* Range::contains on every pair of the candidates dumped by MC_Candidates *)
(* judged against the set meaning (property verdict) and against the       *)
(* transcription (syntactic agreement; a difference is model drift only).  *)
(***************************************************************************)
EXTENDS Candidates, SequencesExt, Json, IOUtils, TLC
In == JsonDeserialize(IOEnv.CANDS)
Cands == In.cands
Probes == ToSet(In.probes)
Res == ndJsonDeserialize(IOEnv.OBS)
N == Len(Cands)
VARIABLES i, ph
Init == i \in 1..N /\ ph = 0
Next == ph = 0 /\ ph' = 1 /\ i' = i
IsPanic(c) == c.t = "panic"
\* syntactic agreement of an implementation result with the transcription (multiples compared as sequences)
Same(c, d) == c.t = d.t /\ CASE c.t = "single" -> ValueEq(c.v, d.v)
                             [] c.t = "multiple" -> Len(c.vs) = Len(d.vs) /\ \A k \in 1..Len(c.vs) : ValueEq(c.vs[k], d.vs[k])
                             [] c.t = "range" -> BoundEq(c.lo, d.lo) /\ BoundEq(c.hi, d.hi) /\ c.nullIncl = d.nullIncl
                             [] OTHER -> TRUE
BadInter(k) == {j \in 1..N : IsPanic(Res[k].inter[j]) \/ ~IntersectExact(Res[k].inter[j], Cands[k], Cands[j], Probes)}
BadExcl(k) == {p \in 1..Len(In.probes) : IsPanic(Res[k].excl[p]) \/ ~ExcludeExact(Res[k].excl[p], Cands[k], In.probes[p], Probes)}
BadContains(k) == {p \in 1..Len(In.probes) : Res[k].aImpl[p] # Contains(Cands[k], In.probes[p])}
Drift(k) == Cardinality({j \in 1..N : ~IsPanic(Res[k].inter[j]) /\ ~Same(Res[k].inter[j], Intersect(Cands[k], Cands[j]))})
            + (IF ~IsPanic(Res[k].norm) /\ ~Same(Res[k].norm, Normalize(Cands[k])) THEN 1 ELSE 0)
Judged == ph = 0 \/
  LET a == Cands[i] r == Res[i] IN
  /\ IF IsPanic(r.norm) \/ ~NormalizeExact(r.norm, a, Probes) THEN PrintT(<<"VERDICT", i, "C06.normalize", ToJson([a |-> a, got |-> r.norm])>>) ELSE TRUE
  /\ IF BadInter(i) # {} THEN LET j == CHOOSE j \in BadInter(i) : TRUE IN PrintT(<<"VERDICT", i, "C06.intersect", ToJson([a |-> a, b |-> Cands[j], got |-> r.inter[j], n |-> Cardinality(BadInter(i))])>>) ELSE TRUE
  /\ IF BadExcl(i) # {} THEN LET p == CHOOSE p \in BadExcl(i) : TRUE IN PrintT(<<"VERDICT", i, "C06.exclude", ToJson([a |-> a, v |-> In.probes[p], got |-> r.excl[p]])>>) ELSE TRUE
  /\ IF BadContains(i) # {} THEN LET p == CHOOSE p \in BadContains(i) : TRUE IN PrintT(<<"VERDICT", i, "C06.contains", ToJson([a |-> a, x |-> In.probes[p], got |-> r.aImpl[p]])>>) ELSE TRUE
  /\ PrintT(<<"VERDICT", i, "C06.done", Drift(i)>>)
=============================================================================
