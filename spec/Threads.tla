------------------------------- MODULE Threads -------------------------------
(***************************************************************************)
(* C24 (DESIGN 3.7): schemas and compiled queries are immutable values     *)
(* shared by reference; the only shared mutable state are lazily           *)
(* initialised once-cells (the OnceLock statics of ir/mod.rs,              *)
(* ir/types/base.rs and schema/mod.rs).  N threads each perform a fixed    *)
(* list of operations; an operation reads some once-cells (initialising    *)
(* them on first use) and the shared immutable data and produces a result  *)
(* that is a function of those.  Every interleaving must give every thread *)
(* the sequential result, a cell is initialised by exactly one thread, and *)
(* its value never changes afterwards.                                     *)
(***************************************************************************)
EXTENDS Naturals, Sequences, FiniteSets, TLC
CONSTANTS Threads, Cells, Ops        \* Ops: sequence of sets of cells each operation reads
VARIABLES cell,    \* cell -> [st : "empty" | "running" | "done", by, val]
          pc,      \* thread -> index of the operation in progress
          need,    \* thread -> cells still to be read for the current operation
          seen,    \* thread -> values read for the current operation (cell -> val)
          results, \* thread -> sequence of results
          inits    \* cell -> number of times an initialiser ran
vars == <<cell, pc, need, seen, results, inits>>
Canon(c) == <<"value-of", c>>                     \* what the initialiser computes (deterministic)
Result(k, vals) == <<k, vals>>                    \* an operation's result is a function of what it read
Init == /\ cell = [c \in Cells |-> [st |-> "empty", by |-> 0, val |-> <<>>]]
        /\ pc = [t \in Threads |-> 1] /\ need = [t \in Threads |-> Ops[1]] /\ seen = [t \in Threads |-> <<>>]
        /\ results = [t \in Threads |-> <<>>] /\ inits = [c \in Cells |-> 0]
Active(t) == pc[t] <= Len(Ops)
\* OnceLock::get_or_init: the first caller runs the initialiser, concurrent callers wait until it is done
BeginInit(t, c) == Active(t) /\ c \in need[t] /\ cell[c].st = "empty"
                   /\ cell' = [cell EXCEPT ![c] = [st |-> "running", by |-> t, val |-> <<>>]]
                   /\ inits' = [inits EXCEPT ![c] = @ + 1] /\ UNCHANGED <<pc, need, seen, results>>
EndInit(t, c) == cell[c].st = "running" /\ cell[c].by = t
                 /\ cell' = [cell EXCEPT ![c] = [st |-> "done", by |-> t, val |-> Canon(c)]]
                 /\ UNCHANGED <<pc, need, seen, results, inits>>
ReadCell(t, c) == Active(t) /\ c \in need[t] /\ cell[c].st = "done"
                  /\ need' = [need EXCEPT ![t] = @ \ {c}]
                  /\ seen' = [seen EXCEPT ![t] = Append(@, <<c, cell[c].val>>)]
                  /\ UNCHANGED <<cell, pc, results, inits>>
Finish(t) == Active(t) /\ need[t] = {}
             /\ results' = [results EXCEPT ![t] = Append(@, Result(pc[t], {seen[t][j] : j \in 1..Len(seen[t])}))]
             /\ pc' = [pc EXCEPT ![t] = @ + 1]
             /\ need' = [need EXCEPT ![t] = IF pc[t] + 1 <= Len(Ops) THEN Ops[pc[t] + 1] ELSE {}]
             /\ seen' = [seen EXCEPT ![t] = <<>>] /\ UNCHANGED <<cell, inits>>
Next == \E t \in Threads : Finish(t) \/ \E c \in Cells : BeginInit(t, c) \/ EndInit(t, c) \/ ReadCell(t, c)
Spec == Init /\ [][Next]_vars /\ WF_vars(Next)

Sequential(k) == Result(k, {<<c, Canon(c)>> : c \in Ops[k]})
SameAsSequential == \A t \in Threads : \A k \in 1..Len(results[t]) : results[t][k] = Sequential(k)
InitialisedOnce == \A c \in Cells : inits[c] <= 1
WriteOnce == [][\A c \in Cells : cell[c].st = "done" => cell'[c] = cell[c]]_vars
AllDone == <>(\A t \in Threads : ~Active(t))
=============================================================================
