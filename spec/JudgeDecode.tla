----------------------------- MODULE JudgeDecode -----------------------------
(* C18 binding A: every value of the universe decoded into every target type by the real
   TryIntoStruct, judged against Decode.tla.  One state per value. *)
EXTENDS Decode, SequencesExt, Json, IOUtils, TLC
Res == ndJsonDeserialize(IOEnv.OBS)
N == Len(Res)
AllTargets == Targets @@ [ optI64 |-> OptT(Targets.i64), optU8 |-> OptT(Targets.u8), optStr |-> OptT(StrT), vecI64 |-> VecT(Targets.i64),
                           vecOptI64 |-> VecT(OptT(Targets.i64)), tupI64 |-> Tup2T(Targets.i64), vecVecI64 |-> VecT(VecT(Targets.i64)),
                           tup3I64 |-> TupT(3, Targets.i64), arr2I64 |-> TupT(2, Targets.i64), vecTupI64 |-> VecT(TupT(2, Targets.i64)), optTupU8 |-> OptT(TupT(2, Targets.u8)) ]
Key(n) == CASE n = "optI64" -> "Option<i64>" [] n = "optU8" -> "Option<u8>" [] n = "optStr" -> "Option<String>" [] n = "vecI64" -> "Vec<i64>"
            [] n = "vecOptI64" -> "Vec<Option<i64>>" [] n = "tupI64" -> "(i64,i64)" [] n = "vecVecI64" -> "Vec<Vec<i64>>"
            [] n = "tup3I64" -> "(i64,i64,i64)" [] n = "arr2I64" -> "[i64;2]" [] n = "vecTupI64" -> "Vec<(i64,i64)>" [] n = "optTupU8" -> "Option<(u8,u8)>" [] OTHER -> n
VARIABLES i, ph
Init == i \in 1..N /\ ph = 0
Next == ph = 0 /\ ph' = 1 /\ i' = i
Judged == ph = 0 \/
  LET v == Res[i].v
      bad == {n \in DOMAIN AllTargets : Verdict(v, AllTargets[n], Res[i].res[Key(n)]) # "fine"}
  IN /\ \A n \in bad : PrintT(<<"VERDICT", i, "C18." \o Verdict(v, AllTargets[n], Res[i].res[Key(n)]), ToJson([v |-> v, target |-> Key(n), got |-> Res[i].res[Key(n)], want |-> Outcome(v, AllTargets[n])])>>)
     /\ PrintT(<<"VERDICT", i, "done", Cardinality(DOMAIN AllTargets)>>)
=============================================================================
