------------------------------- MODULE Checker -------------------------------
(***************************************************************************)
(* C25 (DESIGN 3.7, C.4): the adapter invariant checker.  For a schema     *)
(* document d its probe set is every property of every non-root vertex     *)
(* type plus __typename, every edge of those types all of whose parameters *)
(* have a default (explicit, or implicit null when nullable), and every    *)
(* coercion from an interface to a type that lists it in `implements`.     *)
(* Each probe sends contexts without an active vertex and demands: the     *)
(* same number back, in the same order, with a null property / no          *)
(* neighbour / a false coercion.  A single fault injected at a site is     *)
(* detected exactly when the site is probed.                               *)
(***************************************************************************)
EXTENDS Introspect, Json, IOUtils, TLC
TypenameC == <<"_", "_", "t", "y", "p", "e", "n", "a", "m", "e">>
PropSites(d) == UNION {{[kind |-> "prop", ty |-> t.name, field |-> f] : f \in {x.name : x \in SetOf(Props(d, t))} \cup {TypenameC}} : t \in SetOf(NonRoot(d))}
Defaultable(f) == \A j \in 1..Len(f.params) : f.params[j].hasDefault \/ f.params[j].ty.mods[1]
EdgeSitesAll(d) == UNION {{[kind |-> "nbrs", ty |-> t.name, field |-> x.name] : x \in SetOf(Edges(d, t))} : t \in SetOf(NonRoot(d))}
EdgeSitesProbed(d) == UNION {{[kind |-> "nbrs", ty |-> t.name, field |-> x.name] : x \in {y \in SetOf(Edges(d, t)) : Defaultable(y)}} : t \in SetOf(NonRoot(d))}
CoerceSites(d) == UNION {{[kind |-> "coerce", ty |-> i, field |-> t.name] : i \in Impl(t) \cap TypeNames(d)} : t \in SetOf(NonRoot(d))}
AllSites(d) == PropSites(d) \cup EdgeSitesAll(d) \cup CoerceSites(d)
Probed(d) == PropSites(d) \cup EdgeSitesProbed(d) \cup CoerceSites(d)
Modes == {"wrong", "reorder", "reverse", "drop", "dup"}
Detected(d, site) == site \in Probed(d)

(* judge: cases [id, doc, site, mode, panicked] *)
Cases == ndJsonDeserialize(IOEnv.INST)
VARIABLES i, ph
Init == i \in 1..Len(Cases) /\ ph = 0
Next == ph = 0 /\ ph' = 1 /\ i' = i
Judged == ph = 0 \/
  LET c == Cases[i]  site == [kind |-> c.site.kind, ty |-> c.site.ty, field |-> c.site.field] IN
  IF site \notin AllSites(c.doc) THEN PrintT(<<"VERDICT", c.id, "C25.nosite", 0>>)
  ELSE IF Detected(c.doc, site) = c.panicked THEN PrintT(<<"VERDICT", c.id, IF c.panicked THEN "C25.detected" ELSE "C25.unprobed", 0>>)
  ELSE PrintT(<<"VERDICT", c.id, "C25.bad", Detected(c.doc, site)>>)
=============================================================================
