------------------------------ MODULE ArgCheck ------------------------------
(***************************************************************************)
(* C12 (DESIGN 3.7, C.3): running a compiled query with an argument map is *)
(* refused exactly when a variable has no value, a supplied name is not a  *)
(* variable, or a value does not fit the type the query implies for that   *)
(* variable; the error names exactly the offending variables.              *)
(***************************************************************************)
EXTENDS Query, Json, IOUtils
Cases == ndJsonDeserialize(IOEnv.INST)   \* [id, vars: <<name, type>>*, given: <<name, value>>*, outcome: [t, missing, unused, badtype]]
VARIABLES i, ph
Init == i \in 1..Len(Cases) /\ ph = 0
Next == ph = 0 /\ ph' = 1 /\ i' = i

Names(ps) == {ps[j][1] : j \in 1..Len(ps)}
ValueOf(ps, n) == LET j == CHOOSE j \in 1..Len(ps) : ps[j][1] = n IN ps[j][2]
Missing(c) == Names(c.vars) \ Names(c.given)
Unused(c) == Names(c.given) \ Names(c.vars)
BadType(c) == {n \in Names(c.vars) \cap Names(c.given) : ~Fits(ValueOf(c.given, n), JT(ValueOf(c.vars, n)))}
Accept(c) == Missing(c) = {} /\ Unused(c) = {} /\ BadType(c) = {}
SetOfSeq(s) == {s[j] : j \in 1..Len(s)}
Agrees(c) ==
  IF Accept(c) THEN c.outcome.t = "ok"
  ELSE /\ c.outcome.t = "argerr"
       /\ SetOfSeq(c.outcome.missing) = Missing(c) /\ SetOfSeq(c.outcome.unused) = Unused(c) /\ SetOfSeq(c.outcome.badtype) = BadType(c)
Judged == ph = 0 \/
  LET c == Cases[i] IN
  IF Agrees(c) THEN PrintT(<<"VERDICT", c.id, IF Accept(c) THEN "C12.accept" ELSE "C12.reject", 0>>)
  ELSE PrintT(<<"VERDICT", c.id, "C12.bad", ToJson([missing |-> Missing(c), unused |-> Unused(c), badtype |-> BadType(c), accept |-> Accept(c)])>>)
=============================================================================
