------------------------------ MODULE JudgeTypes ------------------------------
(***************************************************************************)
(* C17 / C16 binding A: the real Type::intersect, is_scalar_only_subtype,  *)
(* equal_ignoring_nullability, is_valid_value, Display, parse and serde    *)
(* round trips on every pair of the types dumped by MC_Types, judged       *)
(* against Types.tla.                                                      *)
(***************************************************************************)
EXTENDS Types, SequencesExt, Json, IOUtils, TLC
In == JsonDeserialize(IOEnv.TYPES)
Tys == [j \in 1..Len(In.types) |-> Ty(In.types[j].base, In.types[j].mods)]
Vals == In.values
Res == ndJsonDeserialize(IOEnv.OBS)
N == Len(Tys)
VARIABLES i, ph
Init == i \in 1..N /\ ph = 0
Next == ph = 0 /\ ph' = 1 /\ i' = i
Bool(x) == x \in BOOLEAN
JTy(t) == Ty(t.base, t.mods)
BadInter(k) == {j \in 1..N : "t" \in DOMAIN Res[k].inter[j] \/ JTy(Res[k].inter[j]) # Intersect(Tys[k], Tys[j])}
BadSub(k) == {j \in 1..N : ~Bool(Res[k].sub[j]) \/ Res[k].sub[j] # ScalarSubtype(Tys[j], Tys[k])}
BadEq(k) == {j \in 1..N : ~Bool(Res[k].eqIgn[j]) \/ Res[k].eqIgn[j] # EqIgnoringNull(Tys[k], Tys[j])}
BadFits(k) == {v \in 1..Len(Vals) : ~Bool(Res[k].fits[v]) \/ Res[k].fits[v] # Fits(Vals[v], Tys[k])}
Say(k, cls, d) == PrintT(<<"VERDICT", k, cls, d>>)
Judged == ph = 0 \/
  LET a == Tys[i] r == Res[i] IN
  IF "t" \in DOMAIN r THEN Say(i, "C17.panic", ToJson(r))
  ELSE
  /\ IF BadInter(i) # {} THEN LET j == CHOOSE j \in BadInter(i) : TRUE IN Say(i, "C17.intersect", ToJson([a |-> a, b |-> Tys[j], got |-> r.inter[j]])) ELSE TRUE
  /\ IF BadSub(i) # {} THEN LET j == CHOOSE j \in BadSub(i) : TRUE IN Say(i, "C17.subtype", ToJson([sup |-> a, sub |-> Tys[j], got |-> r.sub[j]])) ELSE TRUE
  /\ IF BadEq(i) # {} THEN LET j == CHOOSE j \in BadEq(i) : TRUE IN Say(i, "C17.eqignoring", ToJson([a |-> a, b |-> Tys[j], got |-> r.eqIgn[j]])) ELSE TRUE
  /\ IF BadFits(i) # {} THEN LET v == CHOOSE v \in BadFits(i) : TRUE IN Say(i, "C17.fits", ToJson([ty |-> a, v |-> Vals[v], got |-> r.fits[v]])) ELSE TRUE
  /\ IF r.tokens # Render(a) \/ ~r.parseBack THEN Say(i, "C16.typetext", ToJson([ty |-> a, text |-> r.text, parseBack |-> r.parseBack])) ELSE TRUE
  /\ IF ~r.jsonBack \/ ~r.ronBack THEN Say(i, "C16.typeserde", ToJson([ty |-> a, json |-> r.jsonBack, ron |-> r.ronBack])) ELSE TRUE
  /\ IF r.nullable # Nullable(a) \/ r.orderable # Orderable(a) THEN Say(i, "C17.flags", ToJson([ty |-> a])) ELSE TRUE
  /\ Say(i, "done", 0)
=============================================================================
