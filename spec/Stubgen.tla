------------------------------- MODULE Stubgen -------------------------------
(***************************************************************************)
(* C26 (DESIGN 3.7, C.5): the identifiers the stub generator derives from  *)
(* schema names.  Two different snake-case functions are involved: the     *)
(* generator's (util.rs to_lower_snake_case) names modules, functions and  *)
(* the `as_<x>()` accessor CALLS; the TrustfallEnumVertex derive macro's   *)
(* names the accessor DEFINITIONS.  A stub can only compile if they agree  *)
(* on every variant, all identifiers within a namespace are distinct, and  *)
(* keywords are escaped.  Names are character sequences.                   *)
(***************************************************************************)
EXTENDS Naturals, Sequences, FiniteSets, TLC
Upper == {"A","B","C","D","E","F","G","H","I","J","K","L","M","N","O","P","Q","R","S","T","U","V","W","X","Y","Z"}
LowerOf(c) == CASE c = "A" -> "a" [] c = "B" -> "b" [] c = "C" -> "c" [] c = "D" -> "d" [] c = "E" -> "e" [] c = "F" -> "f" [] c = "G" -> "g" [] c = "H" -> "h" [] c = "I" -> "i"
  [] c = "J" -> "j" [] c = "K" -> "k" [] c = "L" -> "l" [] c = "M" -> "m" [] c = "N" -> "n" [] c = "O" -> "o" [] c = "P" -> "p" [] c = "Q" -> "q" [] c = "R" -> "r" [] c = "S" -> "s"
  [] c = "T" -> "t" [] c = "U" -> "u" [] c = "V" -> "v" [] c = "W" -> "w" [] c = "X" -> "x" [] c = "Y" -> "y" [] c = "Z" -> "z" [] OTHER -> c
UpperOf(c) == IF \E u \in Upper : LowerOf(u) = c THEN CHOOSE u \in Upper : LowerOf(u) = c ELSE c
RECURSIVE SnakeFrom(_, _, _)
\* generator: an underscore before an upper-case letter unless the previous character is `_` or upper-case
SnakeFrom(s, last, strict) ==
  IF s = <<>> THEN <<>>
  ELSE LET c == Head(s) IN
       IF c \in Upper
       THEN (IF last # "_" /\ (strict \/ last \notin Upper) THEN <<"_">> ELSE <<>>) \o <<LowerOf(c)>> \o SnakeFrom(Tail(s), c, strict)
       ELSE <<c>> \o SnakeFrom(Tail(s), c, strict)
Snake(n) == SnakeFrom(n, "_", FALSE)
\* derive macro: an underscore before EVERY upper-case letter unless the previous character is `_`
DeriveSnake(n) == SnakeFrom(n, "_", TRUE)
Variant(n) == <<UpperOf(Head(n))>> \o Tail(n)
Keywords == { <<"a","s">>, <<"b","r","e","a","k">>, <<"c","o","n","s","t">>, <<"c","o","n","t","i","n","u","e">>, <<"c","r","a","t","e">>, <<"e","l","s","e">>, <<"e","n","u","m">>,
  <<"e","x","t","e","r","n">>, <<"f","a","l","s","e">>, <<"f","n">>, <<"f","o","r">>, <<"i","f">>, <<"i","m","p","l">>, <<"i","n">>, <<"l","e","t">>, <<"l","o","o","p">>, <<"m","a","t","c","h">>,
  <<"m","o","d">>, <<"m","o","v","e">>, <<"m","u","t">>, <<"p","u","b">>, <<"r","e","f">>, <<"r","e","t","u","r","n">>, <<"s","e","l","f">>, <<"S","e","l","f">>, <<"s","t","a","t","i","c">>,
  <<"s","t","r","u","c","t">>, <<"s","u","p","e","r">>, <<"t","r","a","i","t">>, <<"t","r","u","e">>, <<"t","y","p","e">>, <<"u","n","s","a","f","e">>, <<"u","s","e">>, <<"w","h","e","r","e">>,
  <<"w","h","i","l","e">>, <<"a","s","y","n","c">>, <<"a","w","a","i","t">>, <<"d","y","n">>, <<"t","r","y">>, <<"u","n","i","o","n">> }
\* reserved for future use (escaped like keywords since the D24 repair)
Reserved == { <<"a","b","s","t","r","a","c","t">>, <<"b","e","c","o","m","e">>, <<"b","o","x">>, <<"d","o">>, <<"f","i","n","a","l">>, <<"m","a","c","r","o">>, <<"o","v","e","r","r","i","d","e">>,
  <<"p","r","i","v">>, <<"t","y","p","e","o","f">>, <<"u","n","s","i","z","e","d">>, <<"v","i","r","t","u","a","l">>, <<"y","i","e","l","d">>, <<"g","e","n">> }
Escape(n) == IF n \in Keywords \cup Reserved THEN n \o <<"_">> ELSE n

(* A schema for this purpose: [types : Seq([name, fields : Seq(name)]), entries : Seq(name)]  (non-root types only) *)
TypeIdents(s) == [k \in 1..Len(s.types) |-> Escape(Snake(s.types[k].name))]
Distinct(q) == Cardinality({q[k] : k \in 1..Len(q)}) = Len(q)
\* what the generator itself checks (ensure_no_vertex_name_conflicts / ensure_no_field_name_conflicts_on_vertex_type)
EntrypointsDistinct(s) == Distinct([k \in 1..Len(s.entries) |-> Escape(Snake(s.entries[k]))])
Refused(s) == \/ ~Distinct(TypeIdents(s))
              \/ \E k \in 1..Len(s.types) : ~Distinct([j \in 1..Len(s.types[k].fields) |-> Escape(Snake(s.types[k].fields[j]))])
              \/ ~EntrypointsDistinct(s)
\* what a compiling stub needs in addition: the accessor the stub calls is the one the derive macro defines
\* (the generator computes the call with the macro's own convention, vertex_conversion_fn_name)
AccessorCall(v) == DeriveSnake(v)
AccessorsAgree(s) == \A k \in 1..Len(s.types) : LET v == Escape(Variant(s.types[k].name)) IN AccessorCall(v) = DeriveSnake(v)
VariantsDistinct(s) == Distinct([k \in 1..Len(s.types) |-> Escape(Variant(s.types[k].name))])
\* every identifier the stub declares (modules per type, functions per edge and entrypoint) is a legal identifier after escaping
NoUnescapedKeyword(s) ==
  /\ \A k \in 1..Len(s.types) : Escape(Snake(s.types[k].name)) \notin Keywords \cup Reserved /\ \A j \in 1..Len(s.types[k].edges) : Escape(Snake(s.types[k].edges[j])) \notin Keywords \cup Reserved
  /\ \A k \in 1..Len(s.entries) : Escape(Snake(s.entries[k])) \notin Keywords \cup Reserved
Compiles(s) == AccessorsAgree(s) /\ VariantsDistinct(s) /\ EntrypointsDistinct(s) /\ NoUnescapedKeyword(s)
\* law of the naming scheme itself: whenever the generator accepts, enum variants are distinct (their snake forms are)
AcceptImpliesVariantsDistinct(s) == ~Refused(s) => VariantsDistinct(s)
=============================================================================
