---------------------------- MODULE JudgeFrontend ----------------------------
(***************************************************************************)
(* Judges what the real frontend said about a source-level query (accepted *)
(* or the kinds of the errors it returned, MultipleErrors flattened)        *)
(* against Frontend!ErrorKinds.  One TLC state per instance.               *)
(***************************************************************************)
EXTENDS Frontend, Json, IOUtils
Insts == ndJsonDeserialize(IOEnv.INST)
Obs == ndJsonDeserialize(IOEnv.OBS)      \* [id, t: "ok" | "err" | "panic", kinds: <<..>>]
VARIABLES i, ph
Init == i \in 1..Len(Insts) /\ ph = 0
Next == ph = 0 /\ ph' = 1 /\ i' = i
SetOf(s) == {s[j] : j \in 1..Len(s)}
Judged == ph = 0 \/
  LET inst == Insts[i]  o == Obs[i] IN
  IF OutOfModel(inst.q) THEN PrintT(<<"VERDICT", inst.id, "fe.skip", 0>>)
  ELSE LET want == ErrorKinds(inst)  got == SetOf(o.kinds) IN
       IF o.t # "panic" /\ want = got THEN PrintT(<<"VERDICT", inst.id, IF want = {} THEN "fe.accept" ELSE "fe.reject", Cardinality(want)>>)
       ELSE PrintT(<<"VERDICT", inst.id, "fe.bad", ToJson([want |-> want, got |-> got])>>)
=============================================================================
