------------------------------ MODULE Frontend ------------------------------
(***************************************************************************)
(* Which source-level queries the frontend accepts, and with which KINDS   *)
(* of error it rejects the others (frontend::parse after the GraphQL       *)
(* parser).  Transcribed from frontend/{validation,mod,filters,tags,       *)
(* outputs}.rs (rule list with line references: docs/frontend_rules.md).   *)
(*                                                                         *)
(* The model is shaped like the implementation, because WHICH errors are   *)
(* reported depends on its phases:                                         *)
(*   parse-level checks      first error wins                              *)
(*   validation              pre-order, document order, first error wins   *)
(*   make_ir_for_query       R0 root parameters, R1 root component,        *)
(*                           then (only if R1 succeeded) R2 variables,     *)
(*                           R3 unused tags, R4 global duplicate outputs   *)
(*   a component (root, or the body of one @fold) runs                     *)
(*     A  traversal: registers outputs and tags in document order; a fold  *)
(*        body runs ALL its phases at the moment its edge is reached       *)
(*     B  per-vertex checks and filters, in Vid order  -- stop if A,B erred*)
(*     C  non-fold edges: @recurse, then parameters    -- stop if any      *)
(*     D  duplicate output names of the component                          *)
(* State threaded through the traversal: the tag table (global namespace,  *)
(* registration order matters), the component path (a failed fold is never *)
(* popped: tags.rs / mod.rs:1102), the next vertex id, the output frames.  *)
(* The result is the SET of error kinds; {} means "accepted".              *)
(***************************************************************************)
EXTENDS Query, FiniteSets

VertexTypes(inst) == DOMAIN inst.schema.types
IsInterface(inst, T) == T \in VertexTypes(inst) /\ TypeRec(inst, T).kind = "interface"
Supers(inst, T) == IF T \in VertexTypes(inst) THEN ToSet(TypeRec(inst, T).supers) ELSE {}
PropsOf(inst, ty) == DOMAIN TypeRec(inst, ty).props \cup {"__typename"}
EdgesOf(inst, ty) == DOMAIN TypeRec(inst, ty).edges
IsEdgeField(inst, ty, n) == n \in EdgesOf(inst, ty) /\ n \notin PropsOf(inst, ty)
HasSel(node) == node.props # <<>> \/ node.edges # <<>>
FirstErr(s) == IF \E i \in 1..Len(s) : s[i] # "" THEN s[CHOOSE i \in 1..Len(s) : s[i] # "" /\ \A j \in 1..(i - 1) : s[j] = ""] ELSE ""

(* ---------------- parse level (only what the source AST can express) ---------------- *)
RECURSIVE BadDepth(_)
BadDepth(node) == (node.mode = "recurse" /\ node.depth < 1) \/ \E i \in 1..Len(node.edges) : BadDepth(node.edges[i])

(* ---------------- validation.rs ---------------- *)
RECURSIVE ValChildren(_, _, _), ValEdge(_, _, _)
ValCoerced(inst, node, T) ==
  IF node.coerce = "" THEN (IF T \in VertexTypes(inst) THEN ValChildren(inst, node, T) ELSE IF HasSel(node) THEN "NonExistentPath" ELSE "")
  ELSE IF ~IsInterface(inst, T) THEN "CannotCoerceNonInterfaceType"
  ELSE IF node.coerce \notin VertexTypes(inst) \cup {inst.schema.rootName} THEN "NonExistentType"
  ELSE IF T \notin Supers(inst, node.coerce) THEN "CannotCoerceToUnrelatedType"
  ELSE ValChildren(inst, node, node.coerce)
ValEdge(inst, e, ty) ==
  IF e.edge = "__typename" THEN (IF HasSel(e) THEN "PropertyMetaFieldUsedAsEdge" ELSE "")
  ELSE IF e.edge \in EdgesOf(inst, ty) THEN ValCoerced(inst, e, TypeRec(inst, ty).edges[e.edge].to)
  ELSE IF e.edge \in PropsOf(inst, ty) THEN ValCoerced(inst, e, TypeRec(inst, ty).props[e.edge].base)
  ELSE "NonExistentPath"
ValChildren(inst, node, ty) ==
  FirstErr([i \in 1..Len(node.props) |-> IF node.props[i].name \in PropsOf(inst, ty) \cup EdgesOf(inst, ty) THEN "" ELSE "NonExistentPath"]
           \o [i \in 1..Len(node.edges) |-> ValEdge(inst, node.edges[i], ty)])
Validation(inst) == ValCoerced(inst, inst.q, inst.schema.root[inst.q.edge].to)

\* shapes whose text does not say what the AST says (the renderer drops an empty coerced selection); excluded from judging
RECURSIVE OutOfModel(_)
OutOfModel(node) == (node.coerce # "" /\ ~HasSel(node)) \/ \E i \in 1..Len(node.edges) : OutOfModel(node.edges[i])

(* ---------------- filters.rs: operand typing ---------------- *)
StringOps == {"has_prefix", "not_has_prefix", "has_suffix", "not_has_suffix", "has_substring", "not_has_substring", "regex", "not_regex"}
IsPlainString(t) == ~IsListTy(t) /\ t.base = "String"
If(c, k) == IF c THEN {k} ELSE {}
VarFilterKinds(op, P) ==
  CASE op \in {"is_null", "is_not_null"} -> If(~Nullable(P), "NonNullableTypeFilteredForNullability")
    [] op \in {"=", "!=", "one_of", "not_one_of"} -> {}
    [] op \in OrderOps -> If(~Orderable(P), "OrderingFilterOperationOnNonOrderableSubject")
    [] op \in {"contains", "not_contains"} -> If(~IsListTy(P), "ListFilterOperationOnNonListSubject")
    [] op \in StringOps -> If(~IsPlainString(P), "StringFilterOperationOnNonStringSubject")
TagFilterKinds(op, P, T) ==
  CASE op \in {"=", "!="} -> If(~EqIgnoringNull(P, T), "TypeMismatchBetweenFilterSubjectAndArgument")
    [] op \in OrderOps -> If(~Orderable(P), "OrderingFilterOperationOnNonOrderableSubject") \cup If(~Orderable(T), "OrderingFilterOperationWithNonOrderableArgument")
                          \cup If(~EqIgnoringNull(P, T), "TypeMismatchBetweenFilterSubjectAndArgument")
    [] op \in {"contains", "not_contains"} ->
         IF ~IsListTy(P) THEN {"ListFilterOperationOnNonListSubject"} ELSE If(~EqIgnoringNull(Inner(P), T), "TypeMismatchBetweenFilterSubjectAndArgument")
    [] op \in {"one_of", "not_one_of"} ->
         IF ~IsListTy(T) THEN {"ListFilterOperationOnNonListArgument"} ELSE If(~EqIgnoringNull(P, Inner(T)), "TypeMismatchBetweenFilterSubjectAndArgument")
    [] op \in StringOps -> If(~IsPlainString(P), "StringFilterOperationOnNonStringSubject") \cup If(~IsPlainString(T), "StringFilterOperationOnNonStringArgument")

(* ---------------- mod.rs make_edge_parameters ---------------- *)
ParamKinds(def, given) ==
  LET decl == DOMAIN def.params  got == DOMAIN given IN
  If(\E n \in decl \ got : ~def.params[n].hasDefault /\ ~Nullable(JT(def.params[n].type)), "MissingRequiredEdgeParameter")
  \cup If(\E n \in decl \cap got : ~Fits(given[n], JT(def.params[n].type)), "InvalidEdgeParameterType")
  \cup If(got \ decl # {}, "UnexpectedEdgeParameter")

(* ---------------- mod.rs get_recurse_implicit_coercion ---------------- *)
RecurseKinds(inst, S, e) ==
  LET D == TypeRec(inst, S).edges[e].to IN
  IF ~SubtypeOf(inst, S, D) THEN (IF SubtypeOf(inst, D, S) THEN {"RecursionToSubtype"} ELSE {"RecursingNonRecursableEdge"})
  ELSE IF S = D THEN {}
  ELSE IF HasEdge(inst, D, e) THEN If(TypeRec(inst, D).edges[e].to # D, "EdgeRecursionNeedingMultipleCoercions")
  ELSE LET os == Origins(inst, S, e) IN
       IF Cardinality(os) # 1 THEN {"AmbiguousOriginEdgeRecursion"}
       ELSE LET X == CHOOSE x \in os : TRUE IN If(TypeRec(inst, X).edges[e].to # D, "EdgeRecursionNeedingMultipleCoercions")

(* ---------------- the traversal state ---------------- *)
St0 == [tags |-> <<>>, used |-> {}, errs |-> {}, n |-> 0, path |-> <<>>, next |-> 2, frame |-> <<>>, all |-> <<>>, verts |-> <<>>, edges |-> <<>>]
ErrSet(st, ks) == [st EXCEPT !.errs = @ \cup ks, !.n = @ + Cardinality(ks)]
Err(st, k) == ErrSet(st, {k})
HasTag(st, name) == \E i \in 1..Len(st.tags) : st.tags[i].name = name
TagRec(st, name) == st.tags[CHOOSE i \in 1..Len(st.tags) : st.tags[i].name = name]
RegisterTag(st, name, at, ty) ==
  IF HasTag(st, name) THEN Err(st, "MultipleTagsWithSameName")
  ELSE [st EXCEPT !.tags = Append(@, [name |-> name, path |-> st.path, at |-> at, ty |-> ty])]
\* tags.rs reference_tag
RefKind(st, name, useVid) ==
  IF ~HasTag(st, name) THEN "UndefinedTagInFilter"
  ELSE LET t == TagRec(st, name) IN
       IF IsPrefix(t.path, st.path) THEN (IF t.at > useVid THEN "TagUsedBeforeDefinition" ELSE "ok")
       ELSE "TagUsedOutsideItsFoldedSubquery"
ProcessFilter(st, f, P, useVid) ==
  IF f.arg.k # "tag" THEN ErrSet(st, VarFilterKinds(f.op, P))
  ELSE LET k == RefKind(st, f.arg.n, useVid) IN
       IF k # "ok" THEN Err(st, k)
       ELSE ErrSet([st EXCEPT !.used = @ \cup {f.arg.n}], TagFilterKinds(f.op, P, TagRec(st, f.arg.n).ty))
HasDup(s) == \E i, j \in 1..Len(s) : i < j /\ s[i] = s[j]
AddOutput(st, name) == [st EXCEPT !.frame = Append(@, name), !.all = Append(@, name)]

(* ---------------- phase A (traversal), with the whole pipeline of fold bodies inline ---------------- *)
RECURSIVE TraverseVertex(_, _, _, _, _, _), Component(_, _, _, _, _, _)
\* one property field (or an edge written without a selection among the properties) of the vertex `vid`
TraverseProp(inst, ty, vid, prefix, st, p) ==
  IF IsEdgeField(inst, ty, p.name)
  THEN [st EXCEPT !.next = @ + 1,
                  !.verts = Append(@, [vid |-> st.next, leaf |-> TRUE, node |-> p, ty |-> ty]),
                  !.edges = Append(@, [src |-> ty, name |-> p.name, params |-> [x \in {} |-> 0], recurse |-> FALSE])]
  ELSE LET s1 == FoldLeft(LAMBDA s, o : AddOutput(s, OutName(prefix, p, o)), st, p.outputs)
       IN FoldLeft(LAMBDA s, t : RegisterTag(s, TagName(p, t), vid, PropType(inst, ty, p.name)), s1, p.tags)
FoldPost(inst, e, f, prefix, st) ==
  IF ~HasCount(e) THEN st ELSE
  LET IntNN == Ty("Int", <<FALSE>>)
      s1 == FoldLeft(LAMBDA s, flt : ProcessFilter(s, flt, IntNN, f), st, e.count.filters)
      names == [j \in 1..Len(e.count.outputs) |-> CountOutName(prefix, e, e.count.outputs[j])]
      s2 == IF HasDup(names) THEN Err(s1, "MultipleOutputsWithSameName") ELSE s1
      s3 == FoldLeft(LAMBDA s, nm : AddOutput(s, nm), s2, names)
  IN FoldLeft(LAMBDA s, t : IF t.name = "" THEN Err(s, "ExplicitTagNameRequired") ELSE RegisterTag(s, t.name, f, IntNN), s3, e.count.tags)
TraverseEdge(inst, ty, prefix, st, e) ==
  LET f == st.next
      cty == IF e.coerce # "" THEN e.coerce ELSE TypeRec(inst, ty).edges[e.edge].to
      pre == ScopePrefix(prefix, e)
      s0 == [st EXCEPT !.next = @ + 1]
  IN IF e.mode = "fold"
     THEN LET pk == ParamKinds(TypeRec(inst, ty).edges[e.edge], e.params) IN
          IF pk # {} THEN ErrSet(s0, pk)                      \* the fold body is not processed at all
          ELSE LET r == Component(inst, e, cty, f, pre, [s0 EXCEPT !.path = Append(@, f), !.verts = <<>>, !.edges = <<>>, !.frame = <<>>])
                   back == [r.st EXCEPT !.verts = st.verts, !.edges = st.edges, !.frame = st.frame]
               IN IF ~r.ok THEN back                         \* the failed fold stays on the component path
                  ELSE FoldPost(inst, e, f, prefix, [back EXCEPT !.path = st.path])
     ELSE TraverseVertex(inst, e, cty, f, pre,
                         [s0 EXCEPT !.edges = Append(@, [src |-> ty, name |-> e.edge, params |-> e.params, recurse |-> e.mode = "recurse"])])
TraverseVertex(inst, node, ty, vid, prefix, st) ==
  LET s0 == [st EXCEPT !.verts = Append(@, [vid |-> vid, leaf |-> FALSE, node |-> node, ty |-> ty])]
      s1 == FoldLeft(LAMBDA s, p : TraverseProp(inst, ty, vid, prefix, s, p), s0, node.props)
  IN FoldLeft(LAMBDA s, e : TraverseEdge(inst, ty, prefix, s, e), s1, node.edges)

(* ---------------- phases B, C, D of one component ---------------- *)
VertexChecks(inst, st, v) ==
  IF v.leaf
  THEN ErrSet(st, If(v.node.outputs # <<>>, "UnsupportedEdgeOutput") \cup If(v.node.filters # <<>>, "UnsupportedEdgeFilter") \cup If(v.node.tags # <<>>, "UnsupportedEdgeTag"))
  ELSE FoldLeft(LAMBDA s, p : IF IsEdgeField(inst, v.ty, p.name) THEN s
                              ELSE FoldLeft(LAMBDA s2, flt : ProcessFilter(s2, flt, PropType(inst, v.ty, p.name), v.vid), s, p.filters),
                st, v.node.props)
EdgeChecks(inst, st, ed) ==
  ErrSet(st, (IF ed.recurse THEN RecurseKinds(inst, ed.src, ed.name) ELSE {}) \cup ParamKinds(TypeRec(inst, ed.src).edges[ed.name], ed.params))
Component(inst, node, ty, vid, prefix, st0) ==
  LET sA == TraverseVertex(inst, node, ty, vid, prefix, st0)
      sB == FoldLeft(LAMBDA s, v : VertexChecks(inst, s, v), sA, sA.verts)
  IN IF sB.n > st0.n THEN [st |-> sB, ok |-> FALSE]
     ELSE LET sC == FoldLeft(LAMBDA s, ed : EdgeChecks(inst, s, ed), sB, sB.edges) IN
          IF sC.n > st0.n THEN [st |-> sC, ok |-> FALSE]
          ELSE IF HasDup(sC.frame) THEN [st |-> Err(sC, "MultipleOutputsWithSameName"), ok |-> FALSE]
          ELSE [st |-> sC, ok |-> TRUE]

(* ---------------- the whole frontend ---------------- *)
IncompatibleVars(inst) ==
  LET us == VarUses(inst) IN \E i, j \in 1..Len(us) : us[i][1] = us[j][1] /\ ~EqIgnoringNull(us[i][2], us[j][2])
ErrorKinds(inst) ==
  IF BadDepth(inst.q) THEN {"Parse:InappropriateTypeForDirectiveArgument"}
  ELSE LET v == Validation(inst) IN
  IF v # "" THEN {v}
  ELSE LET q == inst.q
           rootTy == IF q.coerce # "" THEN q.coerce ELSE inst.schema.root[q.edge].to
           r0 == ParamKinds(inst.schema.root[q.edge], q.params)
           r == Component(inst, q, rootTy, 1, "", St0)
       IN IF ~r.ok THEN r0 \cup r.st.errs
          ELSE r0 \cup If(IncompatibleVars(inst), "IncompatibleVariableTypeRequirements")
                  \cup If(\E i \in 1..Len(r.st.tags) : r.st.tags[i].name \notin r.st.used, "UnusedTags")
                  \cup If(HasDup(r.st.all), "MultipleOutputsWithSameName")
=============================================================================
