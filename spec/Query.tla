-------------------------------- MODULE Query --------------------------------
(***************************************************************************)
(* Static meaning of a source-level query (DESIGN 3.2): the outputs it     *)
(* declares and their types, the variables it uses and the types it        *)
(* implies for them, and the structural skeleton of the compiled form.     *)
(***************************************************************************)
EXTENDS Sem, Types

JT(t) == Ty(t.base, t.mods)                  \* a type as it appears in instance / observation JSON
PropType(inst, ty, p) == IF p = "__typename" THEN Ty("String", <<FALSE>>) ELSE JT(TypeRec(inst, ty).props[p])
WithNull(t, n) == Ty(t.base, <<(t.mods[1] \/ n)>> \o Tail(t.mods))
\* one list level per enclosing fold; flags[j] says whether the j-th fold (outermost first) hangs under an @optional
RECURSIVE WrapFolds(_, _)
WrapFolds(t, flags) == IF flags = <<>> THEN t ELSE
  LET inner == WrapFolds(t, Tail(flags)) IN Ty(inner.base, <<Head(flags)>> \o inner.mods)

(* ---------------- declared outputs and their types (C13) ----------------
   opt    : the scope is inside an @optional edge of the current component
   flags  : for each enclosing @fold, whether it hangs under an @optional                      *)
RECURSIVE OutTypesOf(_, _, _, _, _, _)
OutTypesOf(inst, node, ty, prefix, opt, flags) ==
  FlatMap(node.props, LAMBDA p : [j \in 1..Len(p.outputs) |->
            <<OutName(prefix, p, p.outputs[j]), WrapFolds(WithNull(PropType(inst, ty, p.name), opt), flags)>>])
  \o FlatMap(node.edges, LAMBDA e :
       LET cty == IF e.coerce # "" THEN e.coerce ELSE TypeRec(inst, ty).edges[e.edge].to
           pre == ScopePrefix(prefix, e)
       IN IF e.mode = "fold"
          THEN (IF HasCount(e) THEN [j \in 1..Len(e.count.outputs) |->
                                       <<CountOutName(prefix, e, e.count.outputs[j]), WrapFolds(Ty("Int", <<opt>>), flags)>>] ELSE <<>>)
               \o OutTypesOf(inst, e, cty, pre, FALSE, Append(flags, opt))
          ELSE OutTypesOf(inst, e, cty, pre, opt \/ e.mode = "optional", flags))
OutTypes(inst) == OutTypesOf(inst, inst.q, RootType(inst), "", FALSE, <<>>)

(* ---------------- variables and the types the query implies for them (C12, C11) ----------------
   One use of a variable implies the type below (filters.rs infer_variable_type); a variable used several times gets the greatest
   common subtype of its uses (fill_in_query_variables), NoTy when the uses are incompatible.                                  *)
UseType(op, pt) ==
  CASE op \in {"=", "!="} -> pt
    [] op \in {"<", "<=", ">", ">="} -> Ty(pt.base, <<FALSE>> \o Tail(pt.mods))
    [] op \in {"contains", "not_contains"} -> Inner(pt)
    [] op \in {"one_of", "not_one_of"} -> Ty(pt.base, <<FALSE>> \o pt.mods)
    [] OTHER -> Ty("String", <<FALSE>>)
VarUsesIn(fs, pt) == FlatMap(fs, LAMBDA f : IF f.arg.k = "var" THEN << <<f.arg.n, UseType(f.op, pt)>> >> ELSE <<>>)
RECURSIVE VarUsesOf(_, _, _)
VarUsesOf(inst, node, ty) ==
  FlatMap(node.props, LAMBDA p : VarUsesIn(p.filters, PropType(inst, ty, p.name)))
  \o FlatMap(node.edges, LAMBDA e :
       LET cty == IF e.coerce # "" THEN e.coerce ELSE TypeRec(inst, ty).edges[e.edge].to
       IN (IF e.mode = "fold" /\ HasCount(e) THEN VarUsesIn(e.count.filters, Ty("Int", <<FALSE>>)) ELSE <<>>) \o VarUsesOf(inst, e, cty))
VarUses(inst) == VarUsesOf(inst, inst.q, RootType(inst))
RECURSIVE MeetAll(_)
MeetAll(ts) == IF Len(ts) = 1 THEN ts[1] ELSE LET r == MeetAll(Tail(ts)) IN IF IsNoTy(r) THEN r ELSE Intersect(ts[1], r)
ImpliedVarTypes(inst) ==
  LET us == VarUses(inst) IN
  [n \in {us[j][1] : j \in 1..Len(us)} |-> LET sel == SelectSeq(us, LAMBDA u : u[1] = n) IN MeetAll([j \in 1..Len(sel) |-> sel[j][2]])]

\* a row carries exactly the declared names and every value fits its declared type
RowWellTyped(row, decl) ==
  /\ Len(row) = Len(decl)
  /\ \A i \in 1..Len(decl) : \E j \in 1..Len(row) : row[j][1] = decl[i][1] /\ Fits(row[j][2], decl[i][2])
SameDecl(a, b) ==
  /\ Len(a) = Len(b)
  /\ \A i \in 1..Len(a) : \E j \in 1..Len(b) : b[j][1] = a[i][1] /\ b[j][2] = a[i][2]
=============================================================================
