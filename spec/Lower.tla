-------------------------------- MODULE Lower --------------------------------
(***************************************************************************)
(* What a VALID source-level query compiles to: the intermediate           *)
(* representation as a function of the source AST and the schema           *)
(* (frontend/mod.rs make_ir_for_query and friends).  Frontend.tla says     *)
(* which queries are accepted; this module says what comes out:            *)
(*   vertex ids  = pre-order numbering of the edge fields (root = 1),      *)
(*                 edge id = id of the vertex it leads to - 1              *)
(*   components  = the root component and one per @fold, each with its     *)
(*                 vertices (type after coercion, type coerced from,       *)
(*                 filters: operator, property and its type, argument:     *)
(*                 variable with the type this use implies / tag reference *)
(*                 / fold-count reference), its edges (parameters filled   *)
(*                 in with defaults and implicit nulls, @optional,         *)
(*                 @recurse depth and implicit coercion) and folds (count  *)
(*                 filters, count outputs, imported tags), its outputs     *)
(*   variables   = Query!ImpliedVarTypes                                   *)
(* Order is modelled where the implementation's order is observable:       *)
(* vertices by id, edges by id, filters of a vertex grouped by property in *)
(* order of first appearance; imported tags, outputs and parameters are    *)
(* compared as sets.                                                       *)
(***************************************************************************)
EXTENDS Query, FiniteSets

Target(inst, ty, e) == TypeRec(inst, ty).edges[e].to
ParamSet(def, given) == LET fp == FullParams(def, given) IN {<<n, Norm(fp[n])>> : n \in DOMAIN fp}
IntNN == Ty("Int", <<FALSE>>)

(* ---------------- pass 1: the tags, with the vertex / fold they are defined at and the component that owns them ---------------- *)
RECURSIVE TagsOf(_, _, _, _, _, _)
\* returns [tags |-> sequence of tag records, next |-> next free vertex id]
TagsOf(inst, node, ty, vid, comp, next) ==
  LET mine == FlatMap(node.props, LAMBDA p : [j \in 1..Len(p.tags) |->
                 [name |-> TagName(p, p.tags[j]), k |-> "tag", vid |-> vid, field |-> p.name, ty |-> PropType(inst, ty, p.name), eid |-> 0, comp |-> comp]])
      Step(st, e) ==
        LET f == st.next
            cty == IF e.coerce # "" THEN e.coerce ELSE Target(inst, ty, e.edge)
            r == TagsOf(inst, e, cty, f, IF e.mode = "fold" THEN f ELSE comp, f + 1)
            cnt == IF e.mode = "fold" /\ HasCount(e)
                   THEN [j \in 1..Len(e.count.tags) |-> [name |-> e.count.tags[j].name, k |-> "cnt", vid |-> 0, field |-> "", ty |-> IntNN, eid |-> f - 1, comp |-> comp]]
                   ELSE <<>>
        IN [tags |-> st.tags \o r.tags \o cnt, next |-> r.next]
  IN FoldLeft(Step, [tags |-> mine, next |-> next], node.edges)
TagTable(inst) ==
  LET q == inst.q  ty == IF q.coerce # "" THEN q.coerce ELSE inst.schema.root[q.edge].to IN TagsOf(inst, q, ty, 1, 1, 2).tags
TagByName(T, n) == T[CHOOSE j \in 1..Len(T) : T[j].name = n]
RefOf(t) == <<t.k, t.vid, t.field, t.eid>>

(* ---------------- filters ---------------- *)
NoArg == [ak |-> "none", an |-> "", avid |-> 0, afield |-> "", aeid |-> 0, at |-> NoTy]
ArgOf(T, f, P) ==
  CASE f.arg.k = "none" -> NoArg
    [] f.arg.k = "var" -> [ak |-> "var", an |-> f.arg.n, avid |-> 0, afield |-> "", aeid |-> 0, at |-> UseType(f.op, P)]
    [] OTHER -> LET t == TagByName(T, f.arg.n) IN [ak |-> t.k, an |-> "", avid |-> t.vid, afield |-> t.field, aeid |-> t.eid, at |-> t.ty]
Filter(T, f, field, P) == [op |-> f.op, field |-> field, lt |-> P] @@ ArgOf(T, f, P)
\* filters of one vertex: properties in order of first appearance, the occurrences of a property merged, directives in order
FirstAppearances(props) == SelectSeq([j \in 1..Len(props) |-> IF \E i \in 1..(j - 1) : props[i].name = props[j].name THEN "" ELSE props[j].name], LAMBDA n : n # "")
VertexFilters(inst, T, node, ty) ==
  FlatMap(FirstAppearances(node.props), LAMBDA n :
    FlatMap(SelectSeq(node.props, LAMBDA p : p.name = n), LAMBDA p : [j \in 1..Len(p.filters) |-> Filter(T, p.filters[j], n, PropType(inst, ty, n))]))
\* names of the tags used at or below a fold's body (its own count filters run in the parent and are not included)
TagNamesIn(fs) == {fs[j].arg.n : j \in {j \in 1..Len(fs) : fs[j].arg.k = "tag"}}
RECURSIVE UsedBelow(_)
UsedBelow(node) ==
  UNION {TagNamesIn(node.props[k].filters) : k \in 1..Len(node.props)}
  \cup UNION {UsedBelow(node.edges[k]) \cup (IF node.edges[k].mode = "fold" /\ HasCount(node.edges[k]) THEN TagNamesIn(node.edges[k].count.filters) ELSE {})
              : k \in 1..Len(node.edges)}

(* ---------------- @recurse: the implicit coercion recorded on the edge ---------------- *)
RecCoerce(inst, S, e) ==
  LET D == Target(inst, S, e) IN
  IF S = D \/ HasEdge(inst, D, e) THEN "" ELSE CHOOSE x \in Origins(inst, S, e) : TRUE

(* ---------------- pass 2: components ---------------- *)
RECURSIVE LowerVertex(_, _, _, _, _, _, _, _, _)
\* returns [verts, items, outs, sub (set of finished fold components), next]
LowerVertex(inst, T, node, ty, fromTy, vid, comp, prefix, next) ==
  LET me == [vid |-> vid, type |-> ty, from |-> fromTy, filters |-> VertexFilters(inst, T, node, ty)]
      outs == UNION {{<<OutName(prefix, node.props[k], node.props[k].outputs[j]), vid, node.props[k].name>> : j \in 1..Len(node.props[k].outputs)} : k \in 1..Len(node.props)}
      Step(st, e) ==
        LET f == st.next
            D == Target(inst, ty, e.edge)
            cty == IF e.coerce # "" THEN e.coerce ELSE D
            fromT == IF e.coerce # "" THEN D ELSE ""
            pre == ScopePrefix(prefix, e)
            params == ParamSet(TypeRec(inst, ty).edges[e.edge], e.params)
        IN IF e.mode = "fold"
           THEN LET r == LowerVertex(inst, T, e, cty, fromT, f, f, pre, f + 1)
                    body == [root |-> f, parentFold |-> f - 1, vertices |-> r.verts, items |-> r.items, outputs |-> r.outs]
                    imported == {RefOf(TagByName(T, n)) : n \in {n \in UsedBelow(e) : TagByName(T, n).comp = comp}}
                    item == [kind |-> "fold", eid |-> f - 1, from |-> vid, to |-> f, name |-> e.edge, params |-> params, optional |-> FALSE, depth |-> 0, coerceTo |-> "",
                             imported |-> imported,
                             post |-> IF HasCount(e) THEN [j \in 1..Len(e.count.filters) |-> Filter(T, e.count.filters[j], "@count", IntNN)] ELSE <<>>,
                             cntOut |-> IF HasCount(e) THEN {CountOutName(prefix, e, e.count.outputs[j]) : j \in 1..Len(e.count.outputs)} ELSE {}]
                IN [verts |-> st.verts, items |-> Append(st.items, item), outs |-> st.outs, sub |-> st.sub \cup {body} \cup r.sub, next |-> r.next]
           ELSE LET r == LowerVertex(inst, T, e, cty, fromT, f, comp, pre, f + 1)
                    item == [kind |-> "edge", eid |-> f - 1, from |-> vid, to |-> f, name |-> e.edge, params |-> params, optional |-> e.mode = "optional",
                             depth |-> IF e.mode = "recurse" THEN e.depth ELSE 0, coerceTo |-> IF e.mode = "recurse" THEN RecCoerce(inst, ty, e.edge) ELSE "",
                             imported |-> {}, post |-> <<>>, cntOut |-> {}]
                IN [verts |-> st.verts \o r.verts, items |-> Append(st.items, item) \o r.items, outs |-> st.outs \cup r.outs, sub |-> st.sub \cup r.sub, next |-> r.next]
  IN FoldLeft(Step, [verts |-> <<me>>, items |-> <<>>, outs |-> outs, sub |-> {}, next |-> next], node.edges)

Lowered(inst) ==
  LET q == inst.q
      D == inst.schema.root[q.edge].to
      ty == IF q.coerce # "" THEN q.coerce ELSE D
      r == LowerVertex(inst, TagTable(inst), q, ty, IF q.coerce # "" THEN D ELSE "", 1, 1, "", 2)
      root == [root |-> 1, parentFold |-> 0, vertices |-> r.verts, items |-> r.items, outputs |-> r.outs]
  IN [rootName |-> q.edge, rootParams |-> ParamSet(inst.schema.root[q.edge], q.params), comps |-> {root} \cup r.sub, vars |-> ImpliedVarTypes(inst)]

(* ---------------- the exported IR (harness irx.rs) in the same normal form ---------------- *)
IRFilter(f) ==
  [op |-> f.op, field |-> f.field, lt |-> JT(f.ltype), ak |-> f.arg.k, an |-> IF f.arg.k = "var" THEN f.arg.n ELSE "",
   avid |-> IF f.arg.k = "tag" THEN f.arg.vid ELSE 0, afield |-> IF f.arg.k = "tag" THEN f.arg.field ELSE "", aeid |-> IF f.arg.k = "cnt" THEN f.arg.eid ELSE 0,
   at |-> IF f.arg.k = "none" THEN NoTy ELSE JT(f.arg.type)]
PairSet(ps) == {<<ps[j][1], Norm(ps[j][2])>> : j \in 1..Len(ps)}
IRItem(it) ==
  [kind |-> it.kind, eid |-> it.eid, from |-> it.from, to |-> it.to, name |-> it.name, params |-> PairSet(it.params), optional |-> it.optional, depth |-> it.depth,
   coerceTo |-> it.coerceTo, imported |-> {<<it.imported[j].k, it.imported[j].vid, it.imported[j].field, it.imported[j].eid>> : j \in 1..Len(it.imported)},
   post |-> [j \in 1..Len(it.post) |-> IRFilter(it.post[j])], cntOut |-> {it.cntOut[j] : j \in 1..Len(it.cntOut)}]
IRComp(c) ==
  [root |-> c.root, parentFold |-> c.parentFold,
   vertices |-> [k \in 1..Len(c.vertices) |-> [vid |-> c.vertices[k].vid, type |-> c.vertices[k].type, from |-> c.vertices[k].from,
                                                filters |-> [j \in 1..Len(c.vertices[k].filters) |-> IRFilter(c.vertices[k].filters[j])]]],
   items |-> [k \in 1..Len(c.items) |-> IRItem(c.items[k])],
   outputs |-> {<<c.outputs[j].name, c.outputs[j].vid, c.outputs[j].field>> : j \in 1..Len(c.outputs)}]
Exported(ir) ==
  [rootName |-> ir.rootName, rootParams |-> PairSet(ir.rootParams), comps |-> {IRComp(ir.comps[k]) : k \in 1..Len(ir.comps)},
   vars |-> [n \in {ir.vars[k][1] : k \in 1..Len(ir.vars)} |-> JT(ir.vars[CHOOSE k \in 1..Len(ir.vars) : ir.vars[k][1] = n][2])]]
=============================================================================
