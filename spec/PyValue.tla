------------------------------- MODULE PyValue -------------------------------
(***************************************************************************)
(* C27 (DESIGN 3.7, C.6): conversion between Python objects and engine     *)
(* values in pytrustfall/src/value.rs.  A Python object is abstracted to   *)
(*   [kind |-> "none" | "bool" | "int" | "float" | "str" | "list" |        *)
(*            "tuple" | "dict" | "bytes" | "floatlike" | "object", ...]    *)
(* ints carry their range class, floats whether they are finite.           *)
(* ToEngine(o) = [ok, v] (tried in the order of the code); FromEngine is   *)
(* the obvious inverse; both integer representations become `int`.         *)
(***************************************************************************)
EXTENDS Naturals, Sequences, FiniteSets, TLC
IntRanges == {"i64", "u64only", "below_i64", "above_u64"}       \* where a Python int lies
RECURSIVE ToEngine(_)
KindOfEngine(v) == v.k
ToEngine(o) ==
  CASE o.kind = "none" -> [ok |-> TRUE, v |-> [k |-> "null"]]
    [] o.kind = "bool" -> [ok |-> TRUE, v |-> [k |-> "bool"]]                                   \* bool is tried before int (bool is an int in Python)
    [] o.kind = "int" -> IF o.range = "i64" THEN [ok |-> TRUE, v |-> [k |-> "int", r |-> "i"]]
                         ELSE IF o.range = "u64only" THEN [ok |-> TRUE, v |-> [k |-> "int", r |-> "u"]]
                         ELSE [ok |-> FALSE, v |-> [k |-> "none"]]                              \* never silently a float
    [] o.kind = "float" -> IF o.finite THEN [ok |-> TRUE, v |-> [k |-> "float"]] ELSE [ok |-> FALSE, v |-> [k |-> "none"]]
    [] o.kind = "floatlike" -> [ok |-> TRUE, v |-> [k |-> "float"]]                             \* anything float() accepts
    [] o.kind = "str" -> [ok |-> TRUE, v |-> [k |-> "str"]]
    [] o.kind = "list" ->
         LET es == [j \in 1..Len(o.elems) |-> ToEngine(o.elems[j])]
             kinds == {es[j].v.k : j \in {j \in 1..Len(es) : es[j].ok /\ es[j].v.k # "null"}}
         IN IF \E j \in 1..Len(es) : ~es[j].ok THEN [ok |-> FALSE, v |-> [k |-> "none"]]
            ELSE IF Cardinality(kinds) > 1 THEN [ok |-> FALSE, v |-> [k |-> "none"]]   \* non-null elements of one kind
            ELSE [ok |-> TRUE, v |-> [k |-> "list"]]
    [] OTHER -> [ok |-> FALSE, v |-> [k |-> "none"]]                                            \* tuple, dict, bytes, arbitrary objects
\* engine -> Python: the kind of the Python object that comes back
BackKind(v) == CASE v.k = "null" -> "none" [] v.k = "bool" -> "bool" [] v.k = "int" -> "int" [] v.k = "float" -> "float" [] v.k = "str" -> "str" [] v.k = "list" -> "list"
\* laws of the conversion itself (checked by TLC over the object universe of MC_PyValue)
RoundTripKind(o) == ToEngine(o).ok => BackKind(ToEngine(o).v) = (IF o.kind = "floatlike" THEN "float" ELSE o.kind)
IntsNeverFloat(o) == o.kind = "int" /\ ToEngine(o).ok => ToEngine(o).v.k = "int"
BoolNeverInt(o) == o.kind = "bool" => ToEngine(o).v.k = "bool"
=============================================================================
