INIT Init
NEXT Next
INVARIANT Judged
CHECK_DEADLOCK FALSE
