---------------------------- MODULE InterpTrace ----------------------------
(***************************************************************************)
(* Binding B (DESIGN 3.5, 5.3): a trace recorded from the REAL engine by   *)
(* the repository's own AdapterTap (exported by harness/src/tracex.rs with *)
(* `Request` markers and call ordinals) must be a behaviour of Interp.     *)
(* Every event-producing action of Interp must match the next recorded     *)
(* event, including the full projected DataContext at every YieldInto /    *)
(* YieldFrom; silent engine steps are taken freely in between; the         *)
(* adapter's read-ahead policy is NOT logged - TLC infers it.  All Interp  *)
(* invariants are evaluated after every step.                              *)
(* (Inside an action TLC explores both sides of a disjunction, so guards   *)
(* that must short-circuit are written with IF.)                           *)
(***************************************************************************)
EXTENDS Interp, Json, IOUtils, TLCExt
Rec == Inst.events

OutEq(m, r) == m.t = r.t /\ (CASE m.t = "val" -> ValueEq(m.v, r.v) [] m.t = "bool" -> m.b = r.b [] OTHER -> TRUE)
SamePairs(a, b) == Len(a) = Len(b) /\ \A j \in 1..Len(a) : \E k \in 1..Len(b) : a[j] = b[k]
CtxEq(p, r) ==
  /\ p.active = r.active
  /\ SamePairs(p.verts, r.verts)
  /\ Len(p.values) = Len(r.values) /\ \A j \in 1..Len(p.values) : ValueEq(p.values[j], r.values[j])
  /\ p.susp = r.susp
  /\ Len(p.tags) = Len(r.tags)
  /\ \A j \in 1..Len(p.tags) : \E k \in 1..Len(r.tags) :
        r.tags[k][1] = p.tags[j][1] /\ r.tags[k][2].ex = p.tags[j][2].ex /\ ValueEq(r.tags[k][2].v, p.tags[j][2].v)
  /\ SamePairs(p.folded, r.folded)
  /\ Len(p.fvals) = Len(r.fvals)
  /\ \A j \in 1..Len(p.fvals) : \E k \in 1..Len(r.fvals) : r.fvals[k][1] = p.fvals[j][1] /\ ValueEq(r.fvals[k][2], p.fvals[j][2])
  /\ p.piggy = r.piggy
Matches(m, r) ==
  /\ m.e = r.e
  /\ CASE m.e = "Call" -> m.call = r.call /\ m.fn = r.fn /\ m.vid = r.vid /\ (IF m.fn = "start" THEN TRUE ELSE m.ty = r.ty /\ m.field = r.field /\ m.eid = r.eid)
       [] m.e \in {"Advance", "InExh", "OutExh"} -> m.call = r.call
       [] m.e = "YieldInto" -> m.call = r.call /\ CtxEq(m.ctx, r.ctx)
       [] m.e = "YieldFrom" -> m.call = r.call /\ m.fn = r.fn /\ m.ny = r.ny /\ OutEq(m.v, r.v) /\ (IF m.fn = "start" THEN TRUE ELSE CtxEq(m.ctx, r.ctx))
       [] m.e = "NbrInner" -> m.ny = r.ny /\ m.pos = r.pos /\ OutEq(m.v, r.v)
       [] m.e = "NbrExh" -> m.ny = r.ny
       [] m.e = "Row" -> RowEq(m.ctx, r.ctx)
       [] m.e = "Request" -> TRUE
       [] OTHER -> FALSE

TraceInit == Init
TraceNext ==
  /\ l <= Len(Rec)
  /\ Next
  /\ IF ev'.e = "tau" THEN l' = l ELSE Matches(ev', Rec[l]) /\ l' = l + 1
TraceView == <<View, l>>
\* one verdict line when the whole trace has been consumed
Accepted == l = Len(Rec) + 1 => PrintT(<<"VERDICT", Inst.id, "trace.ok", Len(Rec)>>)
\* diagnosis of a rejected trace: how far did any behaviour get
Diag == IOEnv.DIAG # "1" \/ PrintT(<<"AT", Inst.id, l>>)
=============================================================================
