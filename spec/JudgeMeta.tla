------------------------------ MODULE JudgeMeta ------------------------------
(***************************************************************************)
(* C23: metamorphic relations (DESIGN 6/C23).  Each case holds 2 or 3      *)
(* instances related by a source-level transformation.  The relation is    *)
(* checked twice: as a theorem about Sem (verdicts sem.ok) and on the rows the  *)
(* real engine returned for the same instances (verdicts real.ok).       *)
(***************************************************************************)
EXTENDS Sem, Json, IOUtils
Cases == ndJsonDeserialize(IOEnv.INST)
VARIABLES i, ph
Init == i \in 1..Len(Cases) /\ ph = 0
Next == ph = 0 /\ ph' = 1 /\ i' = i

RenameRow(row, ren) == [j \in 1..Len(row) |->
   IF \E k \in 1..Len(ren) : ren[k][2] = row[j][1]
   THEN LET k == CHOOSE k \in 1..Len(ren) : ren[k][2] = row[j][1] IN <<ren[k][1], row[j][2]>> ELSE row[j]]
Holds(rel, r, ren) ==
  CASE rel = "subset"    -> BagSubset(r[2], r[1])
    [] rel = "superset"  -> BagSubset(r[1], r[2])
    [] rel = "equal"     -> BagEq(r[1], r[2])
    [] rel = "equal_foldbag" -> BagEqB(r[1], r[2])
    [] rel = "renamed"   -> BagEq(r[1], [j \in 1..Len(r[2]) |-> RenameRow(r[2][j], ren)])
    [] rel = "partition" -> BagEq(r[1], r[2] \o r[3])
Judged == ph = 0 \/
  LET c == Cases[i]
      sem == <<>> \o [k \in 1..Len(c.insts) |-> Rows([c.insts[k] EXCEPT !.args = c.obs[k].args])]
      real == [k \in 1..Len(c.insts) |-> c.obs[k].rows]
  IN /\ PrintT(<<"VERDICT", c.id, IF Holds(c.rel, sem, c.ren) THEN "sem.ok" ELSE "sem.bad", c.kind>>)
     /\ PrintT(<<"VERDICT", c.id, IF Holds(c.rel, real, c.ren) THEN "real.ok" ELSE "real.bad", c.kind>>)
=============================================================================
