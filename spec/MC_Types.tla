------------------------------ MODULE MC_Types ------------------------------
(***************************************************************************)
(* C17 (and the type half of C16) on the model: all pairs / triples of the *)
(* 120 types over 4 base names, up to 3 list levels and every nullability  *)
(* mask, and a universe of values up to the same nesting.                  *)
(***************************************************************************)
EXTENDS Types, SequencesExt, Json, IOUtils, TLC

TypesU == AllTypes(3)
I1 == IntV(1)
Scal == {Null, I1, [k |-> "int", r |-> "u", v |-> <<65536, 0, 0>>], [k |-> "float", v |-> 1], StrV(<<"a">>), BoolV(TRUE)}
Seqs2(S) == {<<>>} \cup {<<x>> : x \in S} \cup {<<x, y>> : x \in S, y \in S}
L1 == {ListV(s) : s \in Seqs2({Null, I1, StrV(<<"a">>)})}
L2 == {ListV(s) : s \in Seqs2({Null, ListV(<<>>), ListV(<<I1>>), ListV(<<Null>>)})}
L3 == {ListV(s) : s \in Seqs2({Null, ListV(<<ListV(<<I1>>)>>), ListV(<<Null>>)})}
ValuesU == Scal \cup L1 \cup L2 \cup L3

VARIABLE a
Init == a \in TypesU
Next == UNCHANGED a

Sub(x, y) == ScalarSubtype(x, y)           \* x is a subtype of y
SubOrNo(x, y) == IsNoTy(x) \/ Sub(x, y)
I(x, y) == IF IsNoTy(x) \/ IsNoTy(y) THEN NoTy ELSE Intersect(x, y)
LatticeLaws ==
  /\ Intersect(a, a) = a
  /\ \A b \in TypesU :
       /\ Intersect(a, b) = Intersect(b, a)
       /\ IsNoTy(Intersect(a, b)) = (a.base # b.base \/ Depth(a) # Depth(b))
       /\ SubOrNo(Intersect(a, b), a) /\ SubOrNo(Intersect(a, b), b)
       /\ \A c \in TypesU : (Sub(c, a) /\ Sub(c, b)) => (~IsNoTy(Intersect(a, b)) /\ Sub(c, Intersect(a, b)))      \* greatest
       /\ \A c \in TypesU : I(I(a, b), c) = I(a, I(b, c))
SubtypeLaws ==
  /\ Sub(a, a)
  /\ \A b \in TypesU : (Sub(a, b) /\ Sub(b, a)) => a = b
  /\ \A b \in TypesU : \A c \in TypesU : (Sub(a, b) /\ Sub(b, c)) => Sub(a, c)
  /\ \A b \in TypesU : Sub(a, b) => \A v \in ValuesU : Fits(v, a) => Fits(v, b)                                        \* valid for every supertype
EquivLaws ==
  /\ EqIgnoringNull(a, a)
  /\ \A b \in TypesU : EqIgnoringNull(a, b) = EqIgnoringNull(b, a)
  /\ \A b \in TypesU : \A c \in TypesU : (EqIgnoringNull(a, b) /\ EqIgnoringNull(b, c)) => EqIgnoringNull(a, c)
  /\ \A b \in TypesU : EqIgnoringNull(a, b) = ~IsNoTy(Intersect(a, b))
TextLaws ==
  /\ ParseTokens(Render(a)) = a
  /\ \A b \in TypesU : Render(a) = Render(b) => a = b
Dump == a = Ty("Int", <<TRUE>>) => JsonSerialize(IOEnv.OUT, [types |-> SetToSeq(TypesU), values |-> SetToSeq(ValuesU)])
=============================================================================
