CONSTANTS
  Cap = 3
  Eager = TRUE
  MaxRequests = 0
INIT Init
NEXT MCNext
VIEW View
INVARIANTS NoPanic TypeOK LentIffInCall Lazy RowsPrefix RowsFinal SemFinal Report
CHECK_DEADLOCK TRUE
