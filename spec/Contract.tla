------------------------------ MODULE Contract ------------------------------
(***************************************************************************)
(* The caller-side promises of the adapter contract (DESIGN 3.2, C21) and  *)
(* completeness of the required-properties hint (C05), as predicates over  *)
(* one logged resolver call                                                *)
(*   [fn, type, field, to, params : <<name, value>>*, vid, required, active]*)
(* and the instance's abstract schema.                                     *)
(***************************************************************************)
EXTENDS Query

TypeDefined(inst, t) == t \in DOMAIN inst.schema.types
ParamsOK(def, params) ==
  /\ {params[j][1] : j \in 1..Len(params)} = DOMAIN def.params
  /\ Len(params) = Cardinality(DOMAIN def.params)                                   \* no name twice
  /\ \A j \in 1..Len(params) : Fits(params[j][2], JT(def.params[params[j][1]].type))
ActiveOK(inst, c) == \A j \in 1..Len(c.active) : TypeDefined(inst, c.active[j]) /\ SubtypeOf(inst, c.active[j], c.type)
ContractOK(inst, c) ==
  CASE c.fn = "start"  -> c.field \in DOMAIN inst.schema.root /\ ParamsOK(inst.schema.root[c.field], c.params)
    [] c.fn = "prop"   -> /\ TypeDefined(inst, c.type)
                          /\ (c.field = "__typename" \/ c.field \in DOMAIN TypeRec(inst, c.type).props)
                          /\ ActiveOK(inst, c)
    [] c.fn = "nbrs"   -> /\ TypeDefined(inst, c.type)
                          /\ c.field \in DOMAIN TypeRec(inst, c.type).edges
                          /\ ParamsOK(TypeRec(inst, c.type).edges[c.field], c.params)
                          /\ ActiveOK(inst, c)
    [] c.fn = "coerce" -> /\ TypeDefined(inst, c.type) /\ TypeDefined(inst, c.to)
                          /\ c.to # c.type /\ SubtypeOf(inst, c.to, c.type)
                          /\ ActiveOK(inst, c)
\* which query vertex does the ResolveInfo handed to this call describe
InfoVid(c) == IF c.fn = "nbrs" THEN c.dest ELSE c.vid
\* C05: a property requested for vertex v is listed by every required-properties report about v
RequiredComplete(calls, k) ==
  LET c == calls[k] IN
  c.fn # "prop" \/ \A j \in 1..Len(calls) : InfoVid(calls[j]) = c.vid => c.field \in ToSet(calls[j].required)
=============================================================================
