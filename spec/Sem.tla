-------------------------------- MODULE Sem --------------------------------
(***************************************************************************)
(* Denotational semantics of a source-level Trustfall query over a finite  *)
(* graph (DESIGN 3.3), written from spec.md and the language reference.    *)
(* It shares nothing with the frontend or the interpreter of the code      *)
(* under test: the query is the *source-level* AST produced by the         *)
(* generators, not the compiled IR.                                        *)
(*                                                                         *)
(*   Rows(inst)  the sequence of result rows; a row is a sequence of       *)
(*               <<output name, value>> pairs.  Only its *bag* is part of  *)
(*               the language semantics (C01); nothing here terminates     *)
(*               early (C22) and the function is total (C09 "or ends").    *)
(***************************************************************************)
EXTENDS Values, SequencesExt, TLC

NONE == 0                                   \* the absent vertex (inside a missing @optional)
\* `<<>> \o` forces the sequence once: a lazily built function would be re-evaluated at every application inside FlattenSeq
FlatMap(s, F(_)) == FlattenSeq(<<>> \o [i \in 1..Len(s) |-> F(s[i])])

(* ---------------- schema and graph access ---------------- *)
Vert(g, id) == g.verts[id]                  \* vertices are numbered 1..n in order
TypeRec(inst, ty) == inst.schema.types[ty]
SubtypeOf(inst, ty, sup) == ty = sup \/ sup \in ToSet(TypeRec(inst, ty).supers)
Prop(inst, id, p) ==
  IF id = NONE THEN Null
  ELSE IF p = "__typename" THEN StrV(TypeRec(inst, Vert(inst.g, id).ty).chars)
  ELSE Vert(inst.g, id).props[p]
\* the declared parameters of an edge, filled in: explicit value, else declared default, else null
FullParams(def, given) ==
  [n \in DOMAIN def.params |->
     IF n \in DOMAIN given THEN given[n]
     ELSE IF def.params[n].hasDefault THEN def.params[n].default ELSE Null]
\* dataset semantics of parameters (mirrored by the harness's GraphAdapter): a non-null `min`
\* keeps neighbours whose `val` is a number >= min, and entry vertices whose id is >= min
MinOf(params) == IF "min" \in DOMAIN params THEN params["min"] ELSE Null
NbrIds(inst, id, e, given) ==
  IF id = NONE THEN <<>> ELSE
  LET g == inst.g
      def == TypeRec(inst, Vert(g, id).ty).edges[e]
      min == MinOf(FullParams(def, given))
      all == SelectSeq(g.adj[e], LAMBDA pr : pr[1] = id)
      ids == [i \in 1..Len(all) |-> all[i][2]]
  IN IF IsNull(min) THEN ids
     ELSE SelectSeq(ids, LAMBDA t : LET x == Vert(g, t).props["val"] IN ~IsNull(x) /\ ~NumLess(x, min))
Starts(inst) ==
  LET q == inst.q
      min == MinOf(FullParams(inst.schema.root[q.edge], q.params))
      ids == inst.g.entry[q.edge]
  IN IF IsNull(min) THEN ids ELSE SelectSeq(ids, LAMBDA i : ~NumLess(IntV(i), min))

(* ---------------- implicit coercion inside @recurse (language reference, "recurse") ----------------
   Recursing edge e from a scope of type S to destination type D (S a subtype of D).  If D itself
   does not have edge e, deeper levels continue only through vertices of the unique ancestor type
   that introduces e.                                                                              *)
HasEdge(inst, ty, e) == e \in DOMAIN TypeRec(inst, ty).edges
Origins(inst, ty, e) ==
  {x \in {ty} \cup ToSet(TypeRec(inst, ty).supers) :
      HasEdge(inst, x, e) /\ \A y \in ToSet(TypeRec(inst, x).supers) : ~HasEdge(inst, y, e)}
RecContinueType(inst, S, e) ==
  LET D == TypeRec(inst, S).edges[e].to IN
  IF S = D \/ HasEdge(inst, D, e) THEN D
  ELSE CHOOSE x \in Origins(inst, S, e) : TRUE
\* all paths of length 0..d starting at id (a vertex reached along several paths is yielded once per path)
RECURSIVE Reach(_, _, _, _, _, _, _)
Reach(inst, id, e, params, d, cont, first) ==
  IF d = 0 \/ (~first /\ ~SubtypeOf(inst, Vert(inst.g, id).ty, cont)) THEN <<id>>
  ELSE <<id>> \o FlatMap(NbrIds(inst, id, e, params), LAMBDA n : Reach(inst, n, e, params, d - 1, cont, FALSE))

(* ---------------- environments: association lists ---------------- *)
EmptyEnv == [tags |-> <<>>, outs |-> <<>>]
Lookup(al, n) == LET i == CHOOSE i \in 1..Len(al) : al[i][1] = n IN al[i][2]
Has(al, n) == \E i \in 1..Len(al) : al[i][1] = n
Put(al, n, x) == Append(al, <<n, x>>)
RECURSIVE PutAll(_, _, _)
PutAll(ns, val, al) == IF ns = <<>> THEN al ELSE PutAll(Tail(ns), val, Put(al, Head(ns), val))

(* ---------------- naming (language reference: "Output names", "Tag names") ---------------- *)
PropAlias(p) == IF p.alias # "" THEN p.alias ELSE p.name
OutName(prefix, p, o) == IF o.name # "" THEN o.name ELSE prefix \o PropAlias(p)
TagName(p, t) == IF t.name # "" THEN t.name ELSE PropAlias(p)
EdgeAlias(e) == IF e.alias # "" THEN e.alias ELSE e.edge
CountOutName(prefix, e, o) == IF o.name # "" THEN o.name ELSE prefix \o EdgeAlias(e) \o "count"
CountTagName(e, t) == t.name          \* tags on a fold count must be named explicitly
\* implicit names are prefixed by the aliases of all enclosing aliased edge scopes (plain concatenation)
ScopePrefix(prefix, e) == prefix \o e.alias
HasCount(e) == "count" \in DOMAIN e
CountNames(prefix, e) == IF HasCount(e) THEN [j \in 1..Len(e.count.outputs) |-> CountOutName(prefix, e, e.count.outputs[j])] ELSE <<>>
RECURSIVE OutNames(_, _)
OutNames(node, prefix) ==
  FlatMap(node.props, LAMBDA p : [j \in 1..Len(p.outputs) |-> OutName(prefix, p, p.outputs[j])])
  \o FlatMap(node.edges, LAMBDA e : CountNames(prefix, e) \o OutNames(e, ScopePrefix(prefix, e)))

(* ---------------- one scope ---------------- *)
\* a tag value is [ex |-> does the vertex it was taken from exist, v |-> value]
ArgVal(inst, env, arg) == IF arg.k = "var" THEN [ex |-> TRUE, v |-> inst.args[arg.n]] ELSE Lookup(env.tags, arg.n)
FilterOk(inst, env, val, f) ==
  IF f.arg.k = "none" THEN FilterOp(f.op, val, Null)
  ELSE LET a == ArgVal(inst, env, f.arg) IN (~a.ex) \/ FilterOp(f.op, val, a.v)

RECURSIVE AddTags(_, _, _, _, _), AddOuts(_, _, _, _, _, _)
AddTags(inst, v, props, i, env) ==
  IF i > Len(props) THEN env ELSE
  LET p == props[i]  val == Prop(inst, v, p.name)
      RECURSIVE Go(_, _)
      Go(j, e) == IF j > Len(p.tags) THEN e ELSE
                  Go(j + 1, [e EXCEPT !.tags = Put(@, TagName(p, p.tags[j]), [ex |-> v # NONE, v |-> val])])
  IN AddTags(inst, v, props, i + 1, Go(1, env))
\* filters are evaluated in source order; a filter may use a tag defined earlier in the same scope
PassFilters(inst, v, props, env) ==
  v = NONE \/ \A i \in 1..Len(props) : \A j \in 1..Len(props[i].filters) :
                 FilterOk(inst, env, Prop(inst, v, props[i].name), props[i].filters[j])
AddOuts(inst, v, props, i, prefix, env) ==
  IF i > Len(props) THEN env ELSE
  LET p == props[i]  val == Prop(inst, v, p.name)
      RECURSIVE Go(_, _)
      Go(j, e) == IF j > Len(p.outputs) THEN e ELSE
                  Go(j + 1, [e EXCEPT !.outs = Put(@, OutName(prefix, p, p.outputs[j]), val)])
  IN AddOuts(inst, v, props, i + 1, prefix, Go(1, env))

RECURSIVE EvalScope(_, _, _, _, _, _), EvalEdges(_, _, _, _, _, _, _)
\* all ways of extending `env` through the scope `node` (static type ty) positioned at vertex v (NONE = absent)
EvalScope(inst, node, ty, v, prefix, env) ==
  IF v # NONE /\ node.coerce # "" /\ ~SubtypeOf(inst, Vert(inst.g, v).ty, node.coerce) THEN <<>>
  ELSE LET e1 == AddTags(inst, v, node.props, 1, env) IN
       IF ~PassFilters(inst, v, node.props, e1) THEN <<>>
       ELSE EvalEdges(inst, node, ty, v, prefix, 1, <<AddOuts(inst, v, node.props, 1, prefix, e1)>>)

EvalEdges(inst, node, ty, v, prefix, i, envs) ==
  IF i > Len(node.edges) \/ envs = <<>> THEN envs ELSE
  LET e == node.edges[i]
      pre == ScopePrefix(prefix, e)
      nb == NbrIds(inst, v, e.edge, e.params)
      cty == IF e.coerce # "" THEN e.coerce ELSE TypeRec(inst, ty).edges[e.edge].to
      Step(env) ==
        CASE e.mode = "plain" ->
               IF v = NONE THEN EvalScope(inst, e, cty, NONE, pre, env)
               ELSE FlatMap(nb, LAMBDA n : EvalScope(inst, e, cty, n, pre, env))
          [] e.mode = "optional" ->
               IF v = NONE \/ nb = <<>> THEN EvalScope(inst, e, cty, NONE, pre, env)
               ELSE FlatMap(nb, LAMBDA n : EvalScope(inst, e, cty, n, pre, env))
          [] e.mode = "recurse" ->
               IF v = NONE THEN EvalScope(inst, e, cty, NONE, pre, env)
               ELSE FlatMap(Reach(inst, v, e.edge, e.params, e.depth, RecContinueType(inst, ty, e.edge), TRUE),
                            LAMBDA n : EvalScope(inst, e, cty, n, pre, env))
          [] e.mode = "fold" ->
               LET names == OutNames(e, pre)
                   cntNames == CountNames(prefix, e)
                   ctags == IF HasCount(e) THEN e.count.tags ELSE <<>>
                   RECURSIVE CTags(_, _, _)
                   CTags(ts, tv, al) == IF ts = <<>> THEN al ELSE CTags(Tail(ts), tv, Put(al, CountTagName(e, Head(ts)), tv))
               IN
               IF v = NONE THEN
                  << [tags |-> CTags(ctags, [ex |-> FALSE, v |-> Null], env.tags),
                      outs |-> PutAll(cntNames \o names, Null, env.outs)] >>
               ELSE
                  LET inner == FlatMap(nb, LAMBDA n : EvalScope(inst, e, cty, n, pre, [env EXCEPT !.outs = <<>>]))
                      cnt == IntV(Len(inner))
                      cntOk == IF HasCount(e) THEN
                                  \A j \in 1..Len(e.count.filters) : FilterOk(inst, env, cnt, e.count.filters[j])
                               ELSE TRUE
                      RECURSIVE Lists(_, _)
                      Lists(ns, al) == IF ns = <<>> THEN al ELSE
                          Lists(Tail(ns), Put(al, Head(ns), ListV([x \in 1..Len(inner) |-> Lookup(inner[x].outs, Head(ns))])))
                  IN IF ~cntOk THEN <<>>
                     ELSE << [tags |-> CTags(ctags, [ex |-> TRUE, v |-> cnt], env.tags),
                              outs |-> PutAll(cntNames, cnt, Lists(names, env.outs))] >>
  IN EvalEdges(inst, node, ty, v, prefix, i + 1, FlatMap(envs, Step))

RootType(inst) == IF inst.q.coerce # "" THEN inst.q.coerce ELSE inst.schema.root[inst.q.edge].to
RowsFrom(inst, s) == LET envs == EvalScope(inst, inst.q, RootType(inst), s, "", EmptyEnv) IN [i \in 1..Len(envs) |-> envs[i].outs]
Rows(inst) == FlatMap(Starts(inst), LAMBDA s : RowsFrom(inst, s))

(* ---------------- comparing rows and bags of rows ----------------
   A row is turned into a function  output name -> normalised value  (the signed / unsigned representation of an integer is
   dropped, which is all that ValueEq ignores), so that rows can be compared with TLC's built-in equality.               *)
RECURSIVE Norm(_)
Norm(v) == IF v.k = "int" THEN [k |-> "int", v |-> v.v]
           ELSE IF v.k = "list" THEN [k |-> "list", v |-> [i \in 1..Len(v.v) |-> Norm(v.v[i])]]
           ELSE v
RowKey(r) == [n \in {r[i][1] : i \in 1..Len(r)} |-> Norm(r[CHOOSE i \in 1..Len(r) : r[i][1] = n][2])]
Keys(rows) == <<>> \o [i \in 1..Len(rows) |-> RowKey(rows[i])]
RowEq(a, b) == RowKey(a) = RowKey(b)
CountKey(ks, k) == Cardinality({x \in 1..Len(ks) : ks[x] = k})
BagEqK(ka, kb) == Len(ka) = Len(kb) /\ \A i \in 1..Len(ka) : CountKey(ka, ka[i]) = CountKey(kb, ka[i])
BagSubsetK(ka, kb) == \A i \in 1..Len(ka) : CountKey(ka, ka[i]) <= CountKey(kb, ka[i])
BagEq(a, b) == Len(a) = Len(b) /\ BagEqK(Keys(a), Keys(b))
BagSubset(a, b) == BagSubsetK(Keys(a), Keys(b))
\* the same comparison with every list taken as a bag of its elements (used where a transformation permutes folded lists)
RECURSIVE NormB(_)
NormB(v) == IF v.k = "int" THEN [k |-> "int", v |-> v.v]
            ELSE IF v.k = "list" THEN LET es == <<>> \o [i \in 1..Len(v.v) |-> NormB(v.v[i])]
                                      IN [k |-> "bag", v |-> [x \in {es[i] : i \in 1..Len(es)} |-> Cardinality({i \in 1..Len(es) : es[i] = x})]]
            ELSE v
RowKeyB(r) == [n \in {r[i][1] : i \in 1..Len(r)} |-> NormB(r[CHOOSE i \in 1..Len(r) : r[i][1] = n][2])]
BagEqB(a, b) == Len(a) = Len(b) /\ BagEqK(<<>> \o [i \in 1..Len(a) |-> RowKeyB(a[i])], <<>> \o [i \in 1..Len(b) |-> RowKeyB(b[i])])
CountIn(rows, r) == CountKey(Keys(rows), RowKey(r))
=============================================================================
