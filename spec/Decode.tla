------------------------------- MODULE Decode -------------------------------
(***************************************************************************)
(* Decoding a row value into a typed struct field (C18, DESIGN 3.7).       *)
(* Outcome(v, T) is what the property allows:                              *)
(*   "ok"   the value is representable in T: decoding must succeed and     *)
(*          yield exactly the value;                                       *)
(*   "err"  it is not: decoding must return an error (never a truncated,   *)
(*          wrapped or rounded number, never a value of another kind);     *)
(*   "any"  the property does not speak (float into an integer field,      *)
(*          narrowing f64 to f32): anything but a panic, and if a value is *)
(*          produced it must be numerically the same.                      *)
(***************************************************************************)
EXTENDS Values

IntT(lo, hi) == [t |-> "int", lo |-> lo, hi |-> hi]
FloatT(b) == [t |-> "float", bits |-> b]
BoolT == [t |-> "bool"]
StrT == [t |-> "str"]
OptT(x) == [t |-> "opt", of |-> x]
VecT(x) == [t |-> "vec", of |-> x]
Tup2T(x) == [t |-> "tup2", of |-> x]
TupT(n, x) == [t |-> "tup", n |-> n, of |-> x]          \* tuples and fixed-size arrays of n elements: exactly n, never a prefix

\* offset-binary limbs of the integer bounds
L_I8 == <<32767, 16777215, 16777088>>   H_I8 == <<32768, 0, 127>>
L_I16 == <<32767, 16777215, 16744448>>  H_I16 == <<32768, 0, 32767>>
L_I32 == <<32767, 16777088, 0>>         H_I32 == <<32768, 127, 16777215>>
L_I64 == <<0, 0, 0>>                    H_I64 == <<65535, 16777215, 16777215>>
L_U == <<32768, 0, 0>>
H_U8 == <<32768, 0, 255>>  H_U16 == <<32768, 0, 65535>>  H_U32 == <<32768, 255, 16777215>>  H_U64 == <<98303, 16777215, 16777215>>
Targets == [ i8 |-> IntT(L_I8, H_I8), i16 |-> IntT(L_I16, H_I16), i32 |-> IntT(L_I32, H_I32), i64 |-> IntT(L_I64, H_I64),
             u8 |-> IntT(L_U, H_U8), u16 |-> IntT(L_U, H_U16), u32 |-> IntT(L_U, H_U32), u64 |-> IntT(L_U, H_U64),
             f32 |-> FloatT(32), f64 |-> FloatT(64), bool |-> BoolT, String |-> StrT ]

InRange(x, T) == ~LimbLess(x.v, T.lo) /\ ~LimbLess(T.hi, x.v)
\* integers of the universe that a binary float represents exactly (all others need more than 53, resp. 24, significant bits):
\* i64::MIN = -2^63, -1, 0, 1, 2^31, i64::MAX + 1 = 2^63
ExactInFloat(x) == x.v \in {<<0, 0, 0>>, <<32767, 16777215, 16777215>>, <<32768, 0, 0>>, <<32768, 0, 1>>, <<32768, 128, 0>>, <<65536, 0, 0>>}

And3(s) == IF \E i \in 1..Len(s) : s[i] = "err" THEN "err" ELSE IF \E i \in 1..Len(s) : s[i] = "any" THEN "any" ELSE "ok"
RECURSIVE Outcome(_, _)
Outcome(v, T) ==
  IF v.k = "enum" THEN "any"                       \* enum values: only "no panic" is demanded
  ELSE CASE T.t = "int"   -> (CASE v.k = "int" -> IF InRange(v, T) THEN "ok" ELSE "err" [] v.k = "float" -> "any" [] OTHER -> "err")
         [] T.t = "float" -> (CASE v.k = "float" -> IF T.bits = 64 THEN "ok" ELSE "any"
                                [] v.k = "int" -> IF ExactInFloat(v) THEN "ok" ELSE "err" [] OTHER -> "err")
         [] T.t = "bool"  -> IF v.k = "bool" THEN "ok" ELSE "err"
         [] T.t = "str"   -> IF v.k = "str" THEN "ok" ELSE "err"
         [] T.t = "opt"   -> IF IsNull(v) THEN "ok" ELSE Outcome(v, T.of)
         [] T.t = "vec"   -> IF v.k = "list" THEN And3([j \in 1..Len(v.v) |-> Outcome(v.v[j], T.of)]) ELSE "err"
         [] T.t = "tup2"  -> IF v.k = "list" /\ Len(v.v) = 2 THEN And3([j \in 1..2 |-> Outcome(v.v[j], T.of)]) ELSE "err"
         [] T.t = "tup"   -> IF v.k = "list" /\ Len(v.v) = T.n THEN And3([j \in 1..T.n |-> Outcome(v.v[j], T.of)]) ELSE "err"

\* is the decoded value d (as re-encoded by the harness) the same as v ?
RECURSIVE SameDecoded(_, _)
SameDecoded(d, v) ==
  CASE d.k = "floatx" -> v.k = "int" /\ d.int = v.v                      \* a large float that is an integer: must be that integer
    [] d.k = "float" /\ v.k = "int" -> d.v % 2 = 0 /\ ValueEq(IntV(d.v \div 2), v)
    [] d.k = "list" /\ v.k = "list" -> Len(d.v) = Len(v.v) /\ \A j \in 1..Len(d.v) : SameDecoded(d.v[j], v.v[j])
    [] OTHER -> ValueEq(d, v)
Verdict(v, T, r) ==
  LET want == Outcome(v, T) IN
  IF r.t = "panic" THEN "panic"
  ELSE IF r.t = "ok" THEN (IF want = "err" THEN "accepted-unrepresentable" ELSE IF SameDecoded(r.v, v) THEN "fine" ELSE "wrong-value")
  ELSE (IF want = "ok" THEN "rejected-representable" ELSE "fine")
=============================================================================
