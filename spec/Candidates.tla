----------------------------- MODULE Candidates -----------------------------
(***************************************************************************)
(* Candidate values of the query hints (DESIGN 3.1, C06).                  *)
(*                                                                         *)
(*   [t |-> "impossible"] | [t |-> "single", v |-> x]                       *)
(*   | [t |-> "multiple", vs |-> <<x1, ...>>]                               *)
(*   | [t |-> "range", lo |-> bound, hi |-> bound, nullIncl |-> BOOLEAN]     *)
(*   | [t |-> "all"]                                                        *)
(*   bound = [t |-> "unb"] | [t |-> "inc", v |-> x] | [t |-> "exc", v |-> x] *)
(*                                                                         *)
(* `Contains` is the MEANING of a candidate (a set of values, null being a *)
(* value).  Intersect / Normalize / Exclude are transcribed case by case   *)
(* from hints/candidates.rs; the laws below say that the transcription is  *)
(* exact with respect to the meaning.                                      *)
(***************************************************************************)
EXTENDS Values

Impossible == [t |-> "impossible"]
All == [t |-> "all"]
Single(x) == [t |-> "single", v |-> x]
Multiple(s) == [t |-> "multiple", vs |-> s]
Unb == [t |-> "unb"]
Inc(x) == [t |-> "inc", v |-> x]
Exc(x) == [t |-> "exc", v |-> x]
Range(lo, hi, n) == [t |-> "range", lo |-> lo, hi |-> hi, nullIncl |-> n]
FullRange == Range(Unb, Unb, TRUE)

Lt(x, y) == TotalLess(x, y)
Le(x, y) == TotalLess(x, y) \/ ValueEq(x, y)
InSeq(x, s) == \E i \in 1..Len(s) : ValueEq(s[i], x)

(* ---------------- meaning ---------------- *)
RangeContains(r, x) ==
  IF IsNull(x) THEN r.nullIncl
  ELSE /\ CASE r.lo.t = "inc" -> Le(r.lo.v, x) [] r.lo.t = "exc" -> Lt(r.lo.v, x) [] OTHER -> TRUE
       /\ CASE r.hi.t = "inc" -> Le(x, r.hi.v) [] r.hi.t = "exc" -> Lt(x, r.hi.v) [] OTHER -> TRUE
Contains(c, x) ==
  CASE c.t = "impossible" -> FALSE
    [] c.t = "single" -> ValueEq(c.v, x)
    [] c.t = "multiple" -> InSeq(x, c.vs)
    [] c.t = "range" -> RangeContains(c, x)
    [] c.t = "all" -> TRUE

(* ---------------- transcription of candidates.rs ---------------- *)
Degenerate(r) ==
  CASE r.lo.t = "unb" \/ r.hi.t = "unb" -> FALSE
    [] r.lo.t = "inc" /\ r.hi.t = "inc" -> Lt(r.hi.v, r.lo.v)
    [] OTHER -> Le(r.hi.v, r.lo.v)
NullOnly(r) == r.nullIncl /\ Degenerate(r)
BoundEq(a, b) == a.t = b.t /\ (a.t = "unb" \/ ValueEq(a.v, b.v))
Normalize(c) ==
  IF c.t = "range" THEN
     IF NullOnly(c) THEN Single(Null)
     ELSE IF Degenerate(c) THEN Impossible
     ELSE IF BoundEq(c.lo, c.hi) THEN
          (IF c.lo.t = "unb" /\ c.nullIncl THEN All
           ELSE IF c.lo.t = "inc" THEN (IF c.nullIncl THEN Multiple(<<Null, c.lo.v>>) ELSE Single(c.lo.v))
           ELSE c)
     ELSE c
  ELSE IF c.t = "multiple" THEN
     (IF c.vs = <<>> THEN Impossible ELSE IF Len(c.vs) = 1 THEN Single(c.vs[1]) ELSE c)
  ELSE c

RangeIntersect(a, b) ==
  LET lo == CASE a.lo.t = "inc" ->
                   (CASE b.lo.t = "inc" -> IF Lt(a.lo.v, b.lo.v) THEN b.lo ELSE a.lo
                      [] b.lo.t = "exc" -> IF Le(a.lo.v, b.lo.v) THEN b.lo ELSE a.lo
                      [] OTHER -> a.lo)
              [] a.lo.t = "exc" ->
                   (CASE b.lo.t = "unb" -> a.lo [] OTHER -> IF Lt(a.lo.v, b.lo.v) THEN b.lo ELSE a.lo)
              [] OTHER -> b.lo
      hi == CASE a.hi.t = "inc" ->
                   (CASE b.hi.t = "inc" -> IF Lt(b.hi.v, a.hi.v) THEN b.hi ELSE a.hi
                      [] b.hi.t = "exc" -> IF Le(b.hi.v, a.hi.v) THEN b.hi ELSE a.hi
                      [] OTHER -> a.hi)
              [] a.hi.t = "exc" ->
                   (CASE b.hi.t = "unb" -> a.hi [] OTHER -> IF Lt(b.hi.v, a.hi.v) THEN b.hi ELSE a.hi)
              [] OTHER -> b.hi
  IN Range(lo, hi, a.nullIncl /\ b.nullIncl)

Retain(s, P(_)) == SelectSeq(s, P)
IntersectRaw(a, b) ==
  CASE a.t = "impossible" -> a
    [] a.t = "single" ->
         (CASE b.t = "impossible" -> Impossible
            [] b.t = "single" -> IF ValueEq(a.v, b.v) THEN a ELSE Impossible
            [] b.t = "multiple" -> IF InSeq(a.v, b.vs) THEN a ELSE Impossible
            [] b.t = "range" -> IF RangeContains(b, a.v) THEN a ELSE Impossible
            [] b.t = "all" -> a)
    [] a.t = "multiple" ->
         (CASE b.t = "impossible" -> Impossible
            [] b.t = "single" -> IF InSeq(b.v, a.vs) THEN Single(b.v) ELSE Impossible
            [] b.t = "multiple" -> Multiple(Retain(a.vs, LAMBDA x : InSeq(x, b.vs)))
            [] b.t = "range" -> Multiple(Retain(a.vs, LAMBDA x : RangeContains(b, x)))
            [] b.t = "all" -> a)
    [] a.t = "range" -> RangeIntersect(a, b)          \* only reached with b a range (see Intersect)
    [] a.t = "all" -> b
\* `self.intersect(other)`; when self is a range and other is not, the code computes other.intersect(self)
Intersect(a, b) ==
  IF a.t = "range" /\ b.t # "range" THEN Normalize(Normalize(IntersectRaw(b, a)))
  ELSE Normalize(IntersectRaw(a, b))

Exclude(c, v) ==
  CASE c.t = "impossible" -> c
    [] c.t = "single" -> IF ValueEq(c.v, v) THEN Impossible ELSE c
    [] c.t = "multiple" -> Normalize(Multiple(Retain(c.vs, LAMBDA x : ~ValueEq(x, v))))
    [] c.t = "range" ->
         IF IsNull(v) THEN Normalize([c EXCEPT !.nullIncl = FALSE])
         ELSE LET lo == IF c.lo.t = "inc" /\ ValueEq(c.lo.v, v) THEN Exc(v) ELSE c.lo
                  hi == IF c.hi.t = "inc" /\ ValueEq(c.hi.v, v) THEN Exc(v) ELSE c.hi
              IN Normalize(Range(lo, hi, c.nullIncl))
    [] c.t = "all" -> IF IsNull(v) THEN Range(Unb, Unb, FALSE) ELSE c

(* ---------------- the laws of C06, as predicates over a probe set ---------------- *)
IntersectExact(res, a, b, Probes) == \A x \in Probes : Contains(res, x) = (Contains(a, x) /\ Contains(b, x))
NormalizeExact(res, a, Probes) == \A x \in Probes : Contains(res, x) = Contains(a, x)
ExcludeExact(res, a, v, Probes) ==
  /\ \A x \in Probes : Contains(res, x) => Contains(a, x)                                  \* contained in the original
  /\ \A x \in Probes : (Contains(a, x) /\ ~ValueEq(x, v)) => Contains(res, x)               \* keeps everything else
=============================================================================
