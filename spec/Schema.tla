------------------------------- MODULE Schema -------------------------------
(***************************************************************************)
(* Schema documents and their validity (DESIGN 3.2, C19), the contents the *)
(* introspection adapter must report (C20) and the probe set of the        *)
(* adapter invariant checker (C25).                                        *)
(*                                                                         *)
(* A document is                                                           *)
(*   [nschema, query, scalars, dirs, types]                                *)
(*   types[k] = [name, kind : "type" | "interface", implements : Seq,      *)
(*               fields : Seq([name, ty, params : Seq([name, ty,           *)
(*                            hasDefault, default])])]                     *)
(* with types / values encoded as in Types.tla / Values.tla.  Duplicates   *)
(* are representable on purpose.                                           *)
(***************************************************************************)
EXTENDS Types

\* names are character sequences in this module (prefixes matter: reserved names, and name mangling in Stubgen.tla)
CInt == <<"I", "n", "t">>  CFloat == <<"F", "l", "o", "a", "t">>  CString == <<"S", "t", "r", "i", "n", "g">>
CBoolean == <<"B", "o", "o", "l", "e", "a", "n">>  CID == <<"I", "D">>
Builtins == {CInt, CFloat, CString, CBoolean, CID}
BaseName(b) == CASE b = CInt -> "Int" [] b = CFloat -> "Float" [] b = CString -> "String" [] b = CBoolean -> "Boolean" [] b = CID -> "ID" [] OTHER -> "Vertex"
Reserved(n) == Len(n) >= 2 /\ n[1] = "_" /\ n[2] = "_"
SetOf(s) == {s[j] : j \in 1..Len(s)}
NoDup(s) == Cardinality(SetOf(s)) = Len(s)
TypeNames(d) == {d.types[k].name : k \in 1..Len(d.types)}
Def(d, n) == LET k == CHOOSE k \in 1..Len(d.types) : d.types[k].name = n IN d.types[k]
IsVertex(d, n) == n \in TypeNames(d)
Impl(t) == SetOf(t.implements)
FieldNames(t) == {t.fields[k].name : k \in 1..Len(t.fields)}
Field(t, f) == LET k == CHOOSE k \in 1..Len(t.fields) : t.fields[k].name = f IN t.fields[k]
JTy(t) == Ty(BaseName(t.base), t.mods)

(* ---------------- structural well-formedness of the document itself ---------------- *)
ExactlyOneSchemaBlockWithObjectQueryType(d) ==
  d.nschema = 1 /\ d.query # <<>> /\ IsVertex(d, d.query) /\ Def(d, d.query).kind = "type"
NoDuplicateDefinitions(d) ==
  /\ NoDup([k \in 1..Len(d.types) |-> d.types[k].name]) /\ NoDup(d.scalars) /\ NoDup(d.dirs)
  /\ \A k \in 1..Len(d.types) : NoDup([j \in 1..Len(d.types[k].fields) |-> d.types[k].fields[j].name])
NoBuiltinRedefinition(d) == (SetOf(d.scalars) \cup TypeNames(d)) \cap Builtins = {}
MaxListDepthRespected(d) ==
  \A k \in 1..Len(d.types) : \A j \in 1..Len(d.types[k].fields) :
     /\ Len(d.types[k].fields[j].ty.mods) <= 30
     /\ \A p \in 1..Len(d.types[k].fields[j].params) : Len(d.types[k].fields[j].params[p].ty.mods) <= 30
WellFormedDocument(d) ==
  ExactlyOneSchemaBlockWithObjectQueryType(d) /\ NoDuplicateDefinitions(d) /\ NoBuiltinRedefinition(d) /\ MaxListDepthRespected(d)

(* ---------------- the documented schema rules (each one named) ---------------- *)
ImplementsExistAndAreInterfaces(d) ==
  \A k \in 1..Len(d.types) : \A a \in Impl(d.types[k]) : IsVertex(d, a) /\ Def(d, a).kind = "interface"
TransitiveImplements(d) ==
  \A k \in 1..Len(d.types) : \A a \in Impl(d.types[k]) :
     (IsVertex(d, a) /\ Def(d, a).kind = "interface") =>
        \A b \in Impl(Def(d, a)) : b = d.types[k].name \/ b \in Impl(d.types[k])
InheritedFieldsPresent(d) ==
  \A k \in 1..Len(d.types) : \A a \in Impl(d.types[k]) :
     IsVertex(d, a) => FieldNames(Def(d, a)) \subseteq FieldNames(d.types[k])
\* named subtyping as the validator sees it: equal names, or the sub type lists the parent in its own implements
SubNamed(d, parent, sub) ==
  IF IsVertex(d, parent) /\ IsVertex(d, sub) THEN parent = sub \/ parent \in Impl(Def(d, sub))
  ELSE IF ~IsVertex(d, parent) /\ ~IsVertex(d, sub) THEN parent = sub ELSE FALSE
SubFieldType(d, parent, sub) ==
  /\ Len(parent.mods) = Len(sub.mods)
  /\ \A j \in 1..Len(sub.mods) : sub.mods[j] => parent.mods[j]
  /\ SubNamed(d, parent.base, sub.base)
ParamNames(f) == {f.params[j].name : j \in 1..Len(f.params)}
Param(f, n) == LET j == CHOOSE j \in 1..Len(f.params) : f.params[j].name = n IN f.params[j]
OnlyNarrowed(d) ==
  \A k \in 1..Len(d.types) : \A j \in 1..Len(d.types[k].fields) : \A a \in Impl(d.types[k]) :
     LET f == d.types[k].fields[j] IN
     (IsVertex(d, a) /\ f.name \in FieldNames(Def(d, a))) =>
        LET pf == Field(Def(d, a), f.name) IN
        /\ SubFieldType(d, pf.ty, f.ty)                                         \* field types are covariant
        /\ ParamNames(f) = ParamNames(pf)                                       \* same parameter names
        /\ \A n \in ParamNames(f) : ScalarSubtype(JTy(Param(pf, n).ty), JTy(Param(f, n).ty))   \* parameter types are contravariant
IsProperty(f) == f.ty.base \in Builtins
IsEdge(d, f) == ~IsProperty(f) /\ IsVertex(d, f.ty.base)
FieldTypesKnown(d) == \A k \in 1..Len(d.types) : \A j \in 1..Len(d.types[k].fields) : IsProperty(d.types[k].fields[j]) \/ IsEdge(d, d.types[k].fields[j])
NoReservedNames(d) ==
  \A k \in 1..Len(d.types) : ~Reserved(d.types[k].name) /\ \A j \in 1..Len(d.types[k].fields) : ~Reserved(d.types[k].fields[j].name)
NoEdgeIntoRoot(d) == \A k \in 1..Len(d.types) : \A j \in 1..Len(d.types[k].fields) : d.types[k].fields[j].ty.base # d.query
PropertiesTakeNoParameters(d) == \A k \in 1..Len(d.types) : \A j \in 1..Len(d.types[k].fields) : IsProperty(d.types[k].fields[j]) => d.types[k].fields[j].params = <<>>
DefaultsFit(d) ==
  \A k \in 1..Len(d.types) : \A j \in 1..Len(d.types[k].fields) :
     LET f == d.types[k].fields[j] IN
     (IsEdge(d, f) /\ f.ty.base # d.query) =>
        \A p \in 1..Len(f.params) : f.params[p].hasDefault => (f.params[p].default.k # "enum" /\ Fits(f.params[p].default, JTy(f.params[p].ty)))
EdgeNotNestedList(d) == \A k \in 1..Len(d.types) : \A j \in 1..Len(d.types[k].fields) : IsEdge(d, d.types[k].fields[j]) => Len(d.types[k].fields[j].ty.mods) <= 2
RootHasOnlyEdges(d) == \A j \in 1..Len(Def(d, d.query).fields) : ~IsProperty(Def(d, d.query).fields[j])
\* implements relation restricted to defined types; a cycle makes field origins undefined
RECURSIVE ReachN(_, _, _)
ReachN(d, S, n) == IF n = 0 THEN S ELSE ReachN(d, S \cup UNION {Impl(Def(d, a)) \cap TypeNames(d) : a \in S}, n - 1)
Ancestors(d, n) == ReachN(d, Impl(Def(d, n)) \cap TypeNames(d), Len(d.types))
NoImplementsCycle(d) == \A n \in TypeNames(d) : n \notin Ancestors(d, n)
RECURSIVE Origins(_, _, _)
Origins(d, n, f) ==
  LET ups == {a \in Impl(Def(d, n)) \cap TypeNames(d) : f \in FieldNames(Def(d, a))}
  IN IF ups = {} THEN {n} ELSE UNION {Origins(d, a, f) : a \in ups}
UnambiguousFieldOrigins(d) == \A n \in TypeNames(d) : \A f \in FieldNames(Def(d, n)) : Cardinality(Origins(d, n, f)) = 1

Rules(d) ==
  << <<"ImplementsExistAndAreInterfaces", ImplementsExistAndAreInterfaces(d)>>, <<"TransitiveImplements", TransitiveImplements(d)>>,
     <<"InheritedFieldsPresent", InheritedFieldsPresent(d)>>, <<"OnlyNarrowed", OnlyNarrowed(d)>>, <<"FieldTypesKnown", FieldTypesKnown(d)>>,
     <<"NoReservedNames", NoReservedNames(d)>>, <<"NoEdgeIntoRoot", NoEdgeIntoRoot(d)>>, <<"PropertiesTakeNoParameters", PropertiesTakeNoParameters(d)>>,
     <<"DefaultsFit", DefaultsFit(d)>>, <<"EdgeNotNestedList", EdgeNotNestedList(d)>>, <<"RootHasOnlyEdges", RootHasOnlyEdges(d)>>,
     <<"NoImplementsCycle", NoImplementsCycle(d)>>,
     <<"UnambiguousFieldOrigins", IF NoImplementsCycle(d) THEN UnambiguousFieldOrigins(d) ELSE TRUE>> >>
Broken(d) == IF ~WellFormedDocument(d) THEN {"WellFormedDocument"} ELSE {Rules(d)[k][1] : k \in {k \in 1..Len(Rules(d)) : ~Rules(d)[k][2]}}
ValidSchema(d) == Broken(d) = {}
=============================================================================
