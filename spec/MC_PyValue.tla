----------------------------- MODULE MC_PyValue -----------------------------
EXTENDS PyValue, Json, IOUtils
Scalars == {[kind |-> "none"], [kind |-> "bool"], [kind |-> "str"], [kind |-> "floatlike"], [kind |-> "tuple"], [kind |-> "dict"], [kind |-> "bytes"], [kind |-> "object"]}
           \cup {[kind |-> "int", range |-> r] : r \in IntRanges} \cup {[kind |-> "float", finite |-> f] : f \in BOOLEAN}
Lists1 == {[kind |-> "list", elems |-> s] : s \in UNION {[1..n -> Scalars] : n \in 0..2}}
Universe == Scalars \cup Lists1 \cup {[kind |-> "list", elems |-> <<a, b>>] : a \in {[kind |-> "list", elems |-> <<x>>] : x \in Scalars}, b \in {[kind |-> "list", elems |-> <<x>>] : x \in Scalars}}
ASSUME \A o \in Universe : RoundTripKind(o) /\ IntsNeverFloat(o) /\ BoolNeverInt(o)
\* judge: cases [id, obj (abstract), prop : [t, backKind], arg : [t]]
Cases == ndJsonDeserialize(IOEnv.INST)
VARIABLES i, ph
Init == i \in 1..Len(Cases) /\ ph = 0
Next == ph = 0 /\ ph' = 1 /\ i' = i
Judged == ph = 0 \/
  LET c == Cases[i]  e == ToEngine(c.obj)
      okProp == IF e.ok THEN c.prop.t = "ok" /\ c.prop.backKind = BackKind(e.v) ELSE c.prop.t = "exc"
      okArg == IF e.ok THEN c.arg.t \in {"ok", "typeerr"} ELSE c.arg.t = "valueerr"
  IN PrintT(<<"VERDICT", c.id, IF okProp /\ okArg THEN "C27.ok" ELSE "C27.bad", ToJson([accept |-> e.ok, back |-> IF e.ok THEN BackKind(e.v) ELSE "-"])>>)
=============================================================================
