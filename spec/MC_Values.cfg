INIT Init
NEXT Next
INVARIANT EqLaws
INVARIANT OrderLaws
INVARIANT OpLaws
INVARIANT DumpUniverse
CHECK_DEADLOCK FALSE
