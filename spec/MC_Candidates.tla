--------------------------- MODULE MC_Candidates ---------------------------
(***************************************************************************)
(* C06 on the model: every pair of candidates over a 4-point ordered       *)
(* domain plus null (every inclusive / exclusive / unbounded bound         *)
(* combination, null inclusion, singles, multiples, impossible, all) and   *)
(* every probe.  TLC checks that the transcription of candidates.rs is     *)
(* exact w.r.t. the set meaning, and dumps the enumerated candidates,      *)
(* which become the implementation's test cases (binding A).               *)
(* The domain is one of three concretisations (IOEnv.DOM): signed integers *)
(* at the boundaries, unsigned integers beyond i64::MAX mixed with signed  *)
(* representations, strings.                                               *)
(***************************************************************************)
EXTENDS Candidates, SequencesExt, Json, IOUtils, TLC

IntI(p) == [k |-> "int", r |-> "i", v |-> p]
IntU(p) == [k |-> "int", r |-> "u", v |-> p]
DomSigned == << IntI(<<0, 0, 0>>), IntI(<<32767, 16777215, 16777215>>), IntI(<<32768, 0, 1>>), IntI(<<65535, 16777215, 16777215>>) >>
DomUnsigned == << IntI(<<32768, 0, 0>>), IntU(<<32768, 0, 1>>), IntU(<<65536, 0, 0>>), IntU(<<98303, 16777215, 16777215>>) >>
DomStr == << StrV(<<>>), StrV(<<"a">>), StrV(<<"a", "b">>), StrV(<<"b">>) >>
Dom == CASE IOEnv.DOM = "signed" -> DomSigned [] IOEnv.DOM = "unsigned" -> DomUnsigned [] OTHER -> DomStr
Pts == ToSet(Dom)
Probes == Pts \cup {Null}

Bounds == {Unb} \cup {Inc(p) : p \in Pts} \cup {Exc(p) : p \in Pts}
Ranges == {Range(lo, hi, n) : lo \in Bounds, hi \in Bounds, n \in BOOLEAN}
IdxSeqs == {<<i, j>> : i \in 1..5, j \in 1..5} \cup {<<i, j, k>> \in (1..5) \X (1..5) \X (1..5) : i < j /\ j < k}
Elem(i) == IF i = 5 THEN Null ELSE Dom[i]
Multiples == {Multiple([n \in 1..Len(s) |-> Elem(s[n])]) : s \in {t \in IdxSeqs : Len(t) = 3 \/ t[1] <= t[2]}}
AllCands == {Impossible, All} \cup {Single(x) : x \in Probes} \cup Multiples \cup Ranges

VARIABLE a
Init == a \in AllCands
Next == UNCHANGED a

ModelLaws ==
  /\ NormalizeExact(Normalize(a), a, Probes)
  /\ \A v \in Probes : ExcludeExact(Exclude(a, v), a, v, Probes)
  /\ \A b \in AllCands : IntersectExact(Intersect(a, b), a, b, Probes)
\* normal forms: the result of every operation is a fixpoint of Normalize
NormalForms ==
  /\ Normalize(Normalize(a)) = Normalize(a)
  /\ \A b \in AllCands : LET r == Intersect(a, b) IN Normalize(r) = r

Dump == a = All => JsonSerialize(IOEnv.OUT, [cands |-> SetToSeq(AllCands), probes |-> SetToSeq(Probes)])
=============================================================================
