----------------------------- MODULE JudgeValues -----------------------------
(***************************************************************************)
(* C08 binding A: the real `==` and `partial_cmp` of FieldValue on every   *)
(* pair of the universe dumped by MC_Values, judged against ValueEq and    *)
(* TotalLess.  One state (and one verdict) per value.                      *)
(***************************************************************************)
EXTENDS Values, Json, IOUtils, TLC
Rows == ndJsonDeserialize(IOEnv.OBS)
N == Len(Rows)
Val(j) == Rows[j].v
VARIABLES i, ph
Init == i \in 1..N /\ ph = 0
Next == ph = 0 /\ ph' = 1 /\ i' = i
Expected(x, y) == IF TotalLess(x, y) THEN "lt" ELSE IF TotalLess(y, x) THEN "gt" ELSE "eq"
Bad(k) == {j \in 1..N : Rows[k].eq[j] # ValueEq(Val(k), Val(j)) \/ Rows[k].cmp[j] # Expected(Val(k), Val(j))}
Judged == ph = 0 \/ LET b == Bad(i) IN
  IF b = {} THEN PrintT(<<"VERDICT", i, "C08.ok", N>>)
  ELSE LET j == CHOOSE j \in b : TRUE IN
       PrintT(<<"VERDICT", i, "C08.bad", ToJson([a |-> Val(i), b |-> Val(j), eq |-> Rows[i].eq[j], cmp |-> Rows[i].cmp[j],
                                                  wantEq |-> ValueEq(Val(i), Val(j)), wantCmp |-> Expected(Val(i), Val(j)), nbad |-> Cardinality(b)])>>)
=============================================================================
