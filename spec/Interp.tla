------------------------------- MODULE Interp -------------------------------
(***************************************************************************)
(* Operational model of the Trustfall interpreter (DESIGN 3.4): the        *)
(* demand-driven pipeline of lazy iterator stages that                     *)
(* interpreter/execution.rs builds from a compiled query, small-step, one  *)
(* action per linearisation point.                                         *)
(*                                                                         *)
(* Input: an instance (Insts[ti]) holding the IR skeleton exported from    *)
(* the REAL frontend (so the model sits exactly where the interpreter      *)
(* sits), the graph, the arguments and the abstract schema.                *)
(*                                                                         *)
(* The adapter is the most general order-preserving one with a bounded     *)
(* buffer: whenever it is asked for an element (and also inside the        *)
(* resolver call itself, before the iterator is returned) it may pull      *)
(* further inputs (up to Cap buffered) before it yields.  That choice is   *)
(* the only nondeterminism; TLC explores every schedule.                   *)
(*                                                                         *)
(* State                                                                   *)
(*   ti      index of the instance (constant along a behaviour)            *)
(*   insts   stack of pipeline instances: the root pipeline and, while a   *)
(*           fold stage runs, the fold's body / output pipelines           *)
(*   stack   the nested next()/build/call frames: who waits for whom       *)
(*   ret     value in flight between a callee and its caller               *)
(*   lent    per query carrier: is its query currently taken (lent to an   *)
(*           adapter call)                                                 *)
(*   rows    result rows produced so far          (observer)               *)
(*   pulled  starting vertices fetched so far     (observer, C03)          *)
(*   ncalls, nouter  counters naming resolver calls / neighbour iterators  *)
(*   phase   Run | Done | Panic                                            *)
(*   ev      the event of the last step (AdapterTap vocabulary) or tau     *)
(*   sched   the adapter decisions taken so far   (history, for replay)    *)
(*   l       position in the recorded trace being validated (InterpTrace)   *)
(***************************************************************************)
EXTENDS Sem, Naturals, Json, IOUtils

\* the instances (NDJSON file named by the environment variable INST); a constant definition, evaluated once
Insts == ndJsonDeserialize(IOEnv.INST)

CONSTANTS Cap,          \* adapter buffer bound (1 = no read-ahead)
          Eager,        \* may an adapter pull inside the resolver call
          MaxRequests   \* the consumer asks for at most this many rows (0 = until the end)

VARIABLES ti, insts, stack, ret, lent, rows, pulled, ncalls, nouter, phase, ev, sched,
          l        \* position in a recorded trace (InterpTrace); constant 1 in model-checking runs. Next leaves l' to the wrapping spec.
vars == <<ti, insts, stack, ret, lent, rows, pulled, ncalls, nouter, phase, ev, sched>>

Inst == Insts[ti]

(* ------------------------------------------------------------------ values in flight *)
NoOut == [t |-> "none"]
ValOut(v) == [t |-> "val", v |-> v]
BoolOut(b) == [t |-> "bool", b |-> b]
NbrOut(ids, ny) == [t |-> "nbrs", ids |-> ids, ny |-> ny]
TagOut(ex, v) == [t |-> "tag", ex |-> ex, v |-> v]
Item(c, o) == [c |-> c, o |-> o]
RIdle == [t |-> "idle"]
RNone == [t |-> "none"]
RSome(it) == [t |-> "some", it |-> it]
RBuilt == [t |-> "built"]

(* ------------------------------------------------------------------ contexts (DataContext) *)
NewCtx(v, tags, src) ==
  [active |-> v, verts |-> <<>>, values |-> <<>>, susp |-> <<>>, folded |-> <<>>, fvals |-> <<>>,
   piggy |-> <<>>, tags |-> tags, src |-> src]
VertAt(c, vid) == Lookup(c.verts, vid)
Split(c, v) == [c EXCEPT !.active = v, !.piggy = <<>>]
EnsureSuspended(c) == IF c.active # NONE THEN [c EXCEPT !.susp = Append(@, c.active), !.active = NONE] ELSE c
CountOf(c, eid) == LET f == Lookup(c.folded, eid) IN IF f.ex THEN TagOut(TRUE, UIntV(Len(f.elems))) ELSE TagOut(FALSE, Null)
RefKey(r) == <<r.k, r.vid, r.field, r.eid>>

(* ------------------------------------------------------------------ the IR
   Everything below that depends only on the instance (compiled query, arguments, start list) is computed once per
   instance into the table TAB.                        *)
CompAt(x, root) == LET k == CHOOSE k \in 1..Len(x.ir.comps) : x.ir.comps[k].root = root IN x.ir.comps[k]
RootComp(x) == CompAt(x, x.ir.comps[1].root)
VertexIn(comp, vid) == LET k == CHOOSE k \in 1..Len(comp.vertices) : comp.vertices[k].vid = vid IN comp.vertices[k]
HasVertex(comp, vid) == \E k \in 1..Len(comp.vertices) : comp.vertices[k].vid = vid
HasFold(comp, eid) == \E k \in 1..Len(comp.items) : comp.items[k].kind = "fold" /\ comp.items[k].eid = eid
IsFoldEid(x, eid) == \E c \in 1..Len(x.ir.comps) : HasFold(x.ir.comps[c], eid)
FoldItemOf(x, eid) ==
  LET c == CHOOSE c \in 1..Len(x.ir.comps) : HasFold(x.ir.comps[c], eid)
      k == CHOOSE k \in 1..Len(x.ir.comps[c].items) : x.ir.comps[c].items[k].eid = eid
  IN x.ir.comps[c].items[k]
ParamOf(params, n) == IF \E j \in 1..Len(params) : params[j][1] = n
                      THEN LET j == CHOOSE j \in 1..Len(params) : params[j][1] = n IN params[j][2] ELSE Null

(* ------------------------------------------------------------------ the dataset, as the reference adapter resolves it *)
\* An instance either carries a graph (data computed here, as the reference adapter does) or `dataFromTrace`: then the data is whatever
\* the recorded adapter returned (replay of a trace without its data source, as interpreter/replay.rs does): the start vertices are
\* listed in the instance and each YieldInto event carries the outcome the adapter produced for that context.
FromTrace(x) == x.dataFromTrace
StartIdsOf(x) ==
  IF FromTrace(x) THEN x.starts ELSE
  LET ids == x.g.entry[x.ir.rootName]  min == ParamOf(x.ir.rootParams, "min")
  IN IF IsNull(min) THEN ids ELSE SelectSeq(ids, LAMBDA i : ~NumLess(IntV(i), min))
NbrsOf(v, e, params) ==
  IF v = NONE THEN <<>> ELSE
  LET g == Inst.g  min == ParamOf(params, "min")
      all == SelectSeq(g.adj[e], LAMBDA pr : pr[1] = v)
      ids == [i \in 1..Len(all) |-> all[i][2]]
  IN IF IsNull(min) THEN ids
     ELSE SelectSeq(ids, LAMBDA t : LET x == Vert(g, t).props["val"] IN ~IsNull(x) /\ ~NumLess(x, min))
CanCoerce(v, to) == v # NONE /\ SubtypeOf(Inst, Vert(Inst.g, v).ty, to)

(* ------------------------------------------------------------------ stage descriptors and the plan
   (read off compute_component / expand_edge / compute_fold / construct_outputs)                     *)
Op(op, vid, eid, f, var, ref) == [op |-> op, vid |-> vid, eid |-> eid, f |-> f, var |-> var, ref |-> ref]
NoRef == [k |-> "", vid |-> 0, field |-> "", eid |-> 0]
O1(op) == Op(op, 0, 0, "", "", NoRef)
OV(op, vid) == Op(op, vid, 0, "", "", NoRef)
E(ops) == [k |-> "E", ops |-> ops]
A(fn, vid, ty, field, to, eid, name, params) ==
  [k |-> "A", fn |-> fn, vid |-> vid, ty |-> ty, field |-> field, to |-> to, eid |-> eid, name |-> name, params |-> params]
X(mode) == [k |-> "X", mode |-> mode]
PropCall(vid, ty, field) == A("prop", vid, ty, field, "", 0, "", <<>>)

\* the right-hand side of a filter at vertex `cur` of component comp: stages that leave the tagged value in the item's outcome
ArgStages(comp, cur, f) ==
  CASE f.arg.k = "none" -> << E(<<Op("unary", 0, 0, f.op, "", NoRef)>>) >>
    [] f.arg.k = "var"  -> << E(<<Op("fvar", 0, 0, f.op, f.arg.n, NoRef)>>) >>
    [] f.arg.k = "tag"  ->
         IF f.arg.vid = cur THEN
            << PropCall(cur, VertexIn(comp, cur).type, f.arg.field), E(<<O1("localTag"), Op("ftag", 0, 0, f.op, "", NoRef)>>) >>
         ELSE IF HasVertex(comp, f.arg.vid) THEN
            << E(<<OV("suspMove", f.arg.vid)>>), PropCall(f.arg.vid, VertexIn(comp, f.arg.vid).type, f.arg.field),
               E(<<OV("restoreTag", f.arg.vid), Op("ftag", 0, 0, f.op, "", NoRef)>>) >>
         ELSE << E(<<Op("readImp", 0, 0, "", "", f.arg), Op("ftag", 0, 0, f.op, "", NoRef)>>) >>
    [] f.arg.k = "cnt"  ->
         IF HasFold(comp, f.arg.eid)
         THEN << E(<<Op("countTag", 0, f.arg.eid, "", "", NoRef), Op("ftag", 0, 0, f.op, "", NoRef)>>) >>
         ELSE << E(<<Op("readImp", 0, 0, "", "", f.arg), Op("ftag", 0, 0, f.op, "", NoRef)>>) >>
FilterStages(comp, vid, f) ==
  << PropCall(vid, VertexIn(comp, vid).type, f.field), E(<<O1("push")>>) >> \o ArgStages(comp, vid, f)
CoerceStages(v) ==
  IF v.from = "" THEN <<>>
  ELSE << A("coerce", v.vid, v.from, "", v.type, 0, "", <<>>), E(<<O1("keepIfCoerced")>>) >>
EntryStages(comp, vid) ==
  LET v == VertexIn(comp, vid) IN
  CoerceStages(v) \o FlatMap(v.filters, LAMBDA f : FilterStages(comp, vid, f)) \o << E(<<OV("record", vid)>>) >>

EdgeStages(comp, e) ==
  LET from == VertexIn(comp, e.from)  to == VertexIn(comp, e.to) IN
  IF e.depth = 0 THEN
     << E(<<OV("activate", e.from)>>), A("nbrs", e.from, from.type, "", "", e.eid, e.name, e.params),
        X(IF e.optional THEN "opt" ELSE "plain") >> \o EntryStages(comp, e.to)
  ELSE
     LET endpoint == IF to.from # "" THEN to.from ELSE to.type
         recFrom == IF e.coerceTo # "" THEN e.coerceTo ELSE endpoint
         Level == (IF e.coerceTo # ""
                   THEN << A("coerce", e.from, endpoint, "", e.coerceTo, 0, "", <<>>), E(<<O1("suspIfNot")>>) >> ELSE <<>>)
                  \o << A("nbrs", e.from, recFrom, "", "", e.eid, e.name, e.params), X("rec") >>
         RECURSIVE Levels(_)
         Levels(n) == IF n = 0 THEN <<>> ELSE Level \o Levels(n - 1)
     IN << E(<<OV("recPrep", e.from)>>), A("nbrs", e.from, from.type, "", "", e.eid, e.name, e.params), X("rec") >>
        \o Levels(e.depth - 1) \o << X("unpack"), E(<<O1("unsuspend")>>) >> \o EntryStages(comp, e.to)

ImportStages(comp, t) ==
  IF t.k = "tag"
  THEN << E(<<OV("activate", t.vid)>>), PropCall(t.vid, VertexIn(comp, t.vid).type, t.field), E(<<Op("importTag", t.vid, 0, "", "", t)>>) >>
  ELSE << E(<<Op("importCount", 0, t.eid, "", "", t)>>) >>
PostFilterStages(comp, F, f) == << E(<<Op("countPush", 0, F.eid, "", "", NoRef)>>) >> \o ArgStages(comp, F.from, f)
FoldStages(comp, F) ==
  FlatMap(F.imported, LAMBDA t : ImportStages(comp, t))
  \o << E(<<OV("activate", F.from)>>), A("nbrs", F.from, VertexIn(comp, F.from).type, "", "", F.eid, F.name, F.params),
        [k |-> "F", eid |-> F.eid] >>
  \o FlatMap(F.post, LAMBDA f : PostFilterStages(comp, F, f))
  \o << [k |-> "O", eid |-> F.eid] >>

OutputStages(comp) ==     \* comp.outputs is exported in sorted name order (output_names.sort_unstable())
  FlatMap(comp.outputs, LAMBDA o : << E(<<OV("moveTo", o.vid)>>), PropCall(o.vid, VertexIn(comp, o.vid).type, o.field), E(<<O1("push")>>) >>)
CompStages(comp) ==
  EntryStages(comp, comp.root)
  \o FlatMap(comp.items, LAMBDA it : IF it.kind = "fold" THEN FoldStages(comp, it) ELSE EdgeStages(comp, it))
Src(mode) == [k |-> "S", mode |-> mode]
RootPlanOf(x) == << Src("start") >> \o CompStages(RootComp(x)) \o OutputStages(RootComp(x))
BodyPlanOf(x, eid) == << Src("nbr") >> \o CompStages(CompAt(x, FoldItemOf(x, eid).to))
OutPlanOf(x, eid) == << Src("elems") >> \o OutputStages(CompAt(x, FoldItemOf(x, eid).to))

(* ------------------------------------------------------------------ fold-count limits (get_max/min_fold_count_limit) *)
Big == 16777216
\* usize_from_field_value: negative numbers clamp to 0; anything that is not small counts as "more than any fold here"
ToNat(v) == IF v.v[1] < 32768 THEN 0 ELSE IF v.v[1] = 32768 /\ v.v[2] = 0 THEN v.v[3] ELSE Big
Some(n) == [some |-> TRUE, n |-> n]
NoLimit == [some |-> FALSE, n |-> 0]
MinL(a, b) == IF ~a.some THEN b ELSE IF ~b.some THEN a ELSE IF b.n < a.n THEN b ELSE a
MaxL(a, b) == IF ~a.some THEN b ELSE IF ~b.some THEN a ELSE IF b.n > a.n THEN b ELSE a
RECURSIVE MaxOfList(_)
MaxOfList(lst) == IF lst = <<>> THEN NoLimit ELSE MaxL(Some(ToNat(Head(lst))), MaxOfList(Tail(lst)))
MaxLimitOf(x, f) ==
  IF f.arg.k # "var" THEN NoLimit
  ELSE CASE f.op \in {"=", "<="} -> Some(ToNat(x.args[f.arg.n]))
         [] f.op = "<" -> LET n == ToNat(x.args[f.arg.n]) IN Some(IF n = 0 THEN 0 ELSE n - 1)
         [] f.op = "one_of" -> MaxOfList(x.args[f.arg.n].v)
         [] OTHER -> NoLimit
RECURSIVE FoldMaxOf(_, _)
FoldMaxOf(x, fs) == IF fs = <<>> THEN NoLimit ELSE MinL(MaxLimitOf(x, Head(fs)), FoldMaxOf(x, Tail(fs)))
MinLimitOf(x, f) == IF f.op = ">=" THEN Some(ToNat(x.args[f.arg.n])) ELSE Some(ToNat(x.args[f.arg.n]) + 1)
FoldMinRaw(x, fs) ==
  IF fs = <<>> \/ \E j \in 1..Len(fs) : ~(fs[j].arg.k = "var" /\ fs[j].op \in {">=", ">"}) THEN NoLimit
  ELSE LET RECURSIVE Go(_)
           Go(lst) == IF lst = <<>> THEN NoLimit ELSE MaxL(MinLimitOf(x, Head(lst)), Go(Tail(lst)))
       IN Go(fs)
\* Stopping at the lower bound is invisible only if nothing observes the count or anything inside the fold:
\* no output anywhere below the fold, no count output, and no use of a tag on this fold's count anywhere.
RECURSIVE HasOutputsBelow(_, _)
HasOutputsBelow(x, comp) ==
  \/ comp.outputs # <<>>
  \/ \E k \in 1..Len(comp.items) : comp.items[k].kind = "fold" /\
        (comp.items[k].cntOut # <<>> \/ HasOutputsBelow(x, CompAt(x, comp.items[k].to)))
IsCountRef(r, eid) == r.k = "cnt" /\ r.eid = eid
CountTagUsed(x, eid) ==
  \E c \in 1..Len(x.ir.comps) :
     \/ \E k \in 1..Len(x.ir.comps[c].vertices) : \E j \in 1..Len(x.ir.comps[c].vertices[k].filters) :
            IsCountRef(x.ir.comps[c].vertices[k].filters[j].arg, eid)
     \/ \E k \in 1..Len(x.ir.comps[c].items) :
            \/ \E j \in 1..Len(x.ir.comps[c].items[k].post) : IsCountRef(x.ir.comps[c].items[k].post[j].arg, eid)
            \/ \E j \in 1..Len(x.ir.comps[c].items[k].imported) : IsCountRef(x.ir.comps[c].items[k].imported[j], eid)
MinEligible(x, F) == ~HasOutputsBelow(x, CompAt(x, F.to)) /\ F.cntOut = <<>> /\ ~CountTagUsed(x, F.eid)
FoldMinOf(x, F) == IF MinEligible(x, F) THEN FoldMinRaw(x, F.post) ELSE NoLimit

\* every output name at or below a fold (defaults when the fold is empty or absent)
RECURSIVE NamesBelow(_, _)
NamesBelow(x, comp) ==
  FlatMap(comp.items, LAMBDA it : IF it.kind # "fold" THEN <<>> ELSE
     [j \in 1..Len(it.cntOut) |-> <<it.eid, it.cntOut[j]>>]
     \o [j \in 1..Len(CompAt(x, it.to).outputs) |-> <<it.eid, CompAt(x, it.to).outputs[j].name>>]
     \o NamesBelow(x, CompAt(x, it.to)))

(* ------------------------------------------------------------------ the per-instance constant table *)
Force(s) == <<>> \o s                       \* makes TLC evaluate a [j \in 1..n |-> e] once, to an explicit tuple
MaxEid(x) == Len(x.ir.eids)
FoldEntry(x, eid) ==
  IF ~IsFoldEid(x, eid) THEN [isFold |-> FALSE]
  ELSE LET F == FoldItemOf(x, eid)  comp == CompAt(x, F.to) IN
       [isFold |-> TRUE, F |-> F, body |-> BodyPlanOf(x, eid), out |-> OutPlanOf(x, eid),
        mx |-> FoldMaxOf(x, F.post), mn |-> FoldMinOf(x, F), outputs |-> comp.outputs,
        names |-> [j \in 1..Len(comp.outputs) |-> <<F.eid, comp.outputs[j].name>>] \o NamesBelow(x, comp),
        impKeys |-> {<<F.imported[j].k, F.imported[j].vid, F.imported[j].field, F.imported[j].eid>> : j \in 1..Len(F.imported)}]
TabOf(x) == [root |-> RootPlanOf(x), folds |-> Force([e \in 1..MaxEid(x) |-> FoldEntry(x, e)]),
             starts |-> StartIdsOf(x), rootOutputs |-> RootComp(x).outputs, rootVid |-> x.ir.comps[1].root]
\* TLC caches constant definitions, but not ones that (transitively) use RECURSIVE operators; the table is therefore
\* computed once per worker in an ASSUME and kept in TLC register 1.
ASSUME TLCSet(1, Force([t \in 1..Len(Insts) |-> TabOf(Insts[t])]))
TAB == TLCGet(1)
T == TAB[ti]
StartIds == T.starts
RootPlan == T.root
FoldItem(eid) == T.folds[eid].F
ArgV(n) == Inst.args[n]
PlanOf(x) == IF x.pk = "root" THEN T.root ELSE IF x.pk = "body" THEN T.folds[x.eid].body ELSE T.folds[x.eid].out

(* ------------------------------------------------------------------ engine operations on one item *)
Res(ok, it, panic) == [ok |-> ok, it |-> it, panic |-> panic]
PopVal(c) == [c EXCEPT !.values = Front(@)]
ApplyOp(it, op) ==
  LET c == it.c  o == it.o IN
  CASE op.op = "activate" -> IF ~Has(c.verts, op.vid) THEN Res(FALSE, it, "activate: vertex not recorded")
                             ELSE Res(TRUE, Item([c EXCEPT !.active = VertAt(c, op.vid)], o), "")
    [] op.op = "record"   -> IF Has(c.verts, op.vid) THEN Res(FALSE, it, "record_vertex: vid recorded twice")
                             ELSE Res(TRUE, Item([c EXCEPT !.verts = Put(@, op.vid, c.active)], o), "")
    [] op.op = "moveTo"   -> Res(TRUE, Item([c EXCEPT !.active = VertAt(c, op.vid)], o), "")
    [] op.op = "suspMove" -> Res(TRUE, Item([c EXCEPT !.susp = Append(@, c.active), !.active = VertAt(c, op.vid)], o), "")
    [] op.op = "push"     -> Res(TRUE, Item([c EXCEPT !.values = Append(@, o.v)], NoOut), "")
    [] op.op = "restoreTag" ->
         IF c.susp = <<>> THEN Res(FALSE, it, "suspended_vertices.pop() on empty")
         ELSE Res(TRUE, Item([c EXCEPT !.active = Last(c.susp), !.susp = Front(@)], TagOut(VertAt(c, op.vid) # NONE, o.v)), "")
    [] op.op = "localTag" -> Res(TRUE, Item(c, TagOut(TRUE, o.v)), "")
    [] op.op = "readImp"  -> IF ~Has(c.tags, RefKey(op.ref)) THEN Res(FALSE, it, "imported tag missing")
                             ELSE LET t == Lookup(c.tags, RefKey(op.ref)) IN Res(TRUE, Item(c, TagOut(t.ex, t.v)), "")
    [] op.op = "countTag" -> Res(TRUE, Item(c, CountOf(c, op.eid)), "")
    [] op.op = "countPush" -> LET t == CountOf(c, op.eid) IN Res(TRUE, Item([c EXCEPT !.values = Append(@, t.v)], NoOut), "")
    [] op.op = "keepIfCoerced" -> Res(o.b \/ c.active = NONE, Item(c, NoOut), "")
    [] op.op = "unary"    -> IF c.values = <<>> THEN Res(FALSE, it, "no value present")
                             ELSE Res(c.active = NONE \/ FilterOp(op.f, Last(c.values), Null), Item(PopVal(c), NoOut), "")
    [] op.op = "fvar"     -> IF c.values = <<>> THEN Res(FALSE, it, "no value present")
                             ELSE Res(c.active = NONE \/ FilterOp(op.f, Last(c.values), ArgV(op.var)), Item(PopVal(c), NoOut), "")
    [] op.op = "ftag"     -> IF c.values = <<>> THEN Res(FALSE, it, "no value present")
                             ELSE Res((~o.ex) \/ c.active = NONE \/ FilterOp(op.f, Last(c.values), o.v), Item(PopVal(c), NoOut), "")
    [] op.op = "importTag" -> Res(TRUE, Item([c EXCEPT !.tags = Put(@, RefKey(op.ref), [ex |-> VertAt(c, op.vid) # NONE, v |-> o.v])], NoOut), "")
    [] op.op = "importCount" -> LET t == CountOf(c, op.eid) IN
                             Res(TRUE, Item([c EXCEPT !.tags = Put(@, RefKey(op.ref), [ex |-> t.ex, v |-> t.v])], NoOut), "")
    [] op.op = "recPrep"  -> LET c1 == IF c.active = NONE THEN [c EXCEPT !.susp = Append(@, NONE)] ELSE c
                             IN Res(TRUE, Item([c1 EXCEPT !.active = VertAt(c, op.vid)], o), "")
    [] op.op = "suspIfNot" -> Res(TRUE, Item(IF o.b THEN c ELSE EnsureSuspended(c), NoOut), "")
    [] op.op = "unsuspend" -> IF c.active # NONE THEN Res(TRUE, it, "")
                              ELSE IF c.susp = <<>> THEN Res(FALSE, it, "suspended_vertices.pop() on empty")
                              ELSE Res(TRUE, Item([c EXCEPT !.active = Last(c.susp), !.susp = Front(@)], o), "")
RECURSIVE ApplyOps(_, _)
ApplyOps(it, ops) ==
  IF ops = <<>> THEN Res(TRUE, it, "")
  ELSE LET r == ApplyOp(it, Head(ops)) IN IF r.panic # "" \/ ~r.ok THEN r ELSE ApplyOps(r.it, Tail(ops))

\* unpack_piggyback: riders first (depth first), then the context itself
RECURSIVE Unpack(_)
Unpack(c) == FlatMap(c.piggy, LAMBDA r : Unpack(r)) \o << [c EXCEPT !.piggy = <<>>] >>

(* ------------------------------------------------------------------ rows *)
\* Option<ValueOrVec> -> FieldValue is the identity on this encoding (None = Null, Vec = list value)
MakeRow(c) ==
  LET outs == T.rootOutputs
  IN [j \in 1..Len(outs) |-> <<outs[j].name, c.values[j]>>] \o [j \in 1..Len(c.fvals) |-> <<c.fvals[j][1][2], c.fvals[j][2]>>]

(* ------------------------------------------------------------------ machine plumbing *)
NoCur == [t |-> "none"]
SS0 == [buf |-> <<>>, exh |-> FALSE, oexh |-> FALSE, oc |-> 0, cur |-> NoCur, n |-> 0, acc |-> <<>>, c1 |-> 0]
NewInst(pk, eid, car, n) == [pk |-> pk, eid |-> eid, car |-> car, st |-> [j \in 1..n |-> SS0]]
Frame(t, i, k, pc) == [t |-> t, i |-> i, k |-> k, pc |-> pc]
Top == stack[Len(stack)]
Below == SubSeq(stack, 1, Len(stack) - 1)
WithTop(f) == [stack EXCEPT ![Len(stack)] = f]
TopPc(pc) == WithTop([Top EXCEPT !.pc = pc])
PlanTop == PlanOf(insts[Top.i])
StageTop == PlanTop[Top.k]
StTop == insts[Top.i].st[Top.k]
SetSt(i, k, s) == [insts EXCEPT ![i].st[k] = s]
CallNext(i, k, pc) == Append(TopPc(pc), Frame("next", i, k, "start"))   \* the top frame waits in `pc` for stage (i,k)

Tau == [e |-> "tau", call |-> 0, fn |-> "", vid |-> 0, ty |-> "", field |-> "", eid |-> 0, ctx |-> <<>>, v |-> NoOut, pos |-> 0, ny |-> 0]
Ev(e, call) == [Tau EXCEPT !.e = e, !.call = call]
\* what AdapterTap records of a context
Proj(c) == [active |-> c.active, verts |-> c.verts, values |-> c.values, susp |-> c.susp, tags |-> c.tags,
            folded |-> [j \in 1..Len(c.folded) |-> <<c.folded[j][1], IF c.folded[j][2].ex THEN Len(c.folded[j][2].elems) ELSE 0 - 1>>],
            fvals |-> c.fvals, piggy |-> Len(c.piggy)]

Panic(why) == /\ phase' = "Panic" /\ ev' = [Tau EXCEPT !.e = "Panic", !.field = why]
              /\ UNCHANGED <<ti, insts, stack, ret, lent, rows, pulled, ncalls, nouter, sched>>
Keep(vs) == UNCHANGED vs

(* ------------------------------------------------------------------ initial state *)
Init ==
  /\ ti \in 1..Len(Insts)
  /\ insts = << NewInst("root", 0, 1, Len(RootPlan)) >>
  /\ stack = << Frame("consumer", 0, 0, "init") >>
  /\ ret = RIdle
  /\ lent = << FALSE >>
  /\ rows = <<>> /\ pulled = 0 /\ ncalls = 0 /\ nouter = 0
  /\ phase = "Run" /\ ev = Tau /\ sched = <<>> /\ l = 1

(* ------------------------------------------------------------------ the consumer of the result iterator *)
ConsumerStart ==      \* interpret_ir: build the root pipeline
  /\ Top.t = "consumer" /\ Top.pc = "init"
  /\ stack' = Append(TopPc("built"), Frame("build", 1, 1, "start"))
  /\ ev' = Tau /\ Keep(<<ti, insts, ret, lent, rows, pulled, ncalls, nouter, phase, sched>>)
ConsumerBuilt ==
  /\ Top.t = "consumer" /\ Top.pc = "built" /\ ret.t = "built"
  /\ stack' = TopPc("idle") /\ ret' = RIdle
  /\ ev' = Tau /\ Keep(<<ti, insts, lent, rows, pulled, ncalls, nouter, phase, sched>>)
ConsumerRequest ==
  /\ Top.t = "consumer" /\ Top.pc = "idle"
  /\ MaxRequests = 0 \/ Len(rows) < MaxRequests
  /\ stack' = CallNext(1, Len(RootPlan), "wait")
  /\ ev' = (IF Inst.noRequestMarkers THEN Tau ELSE Ev("Request", 0)) /\ Keep(<<ti, insts, ret, lent, rows, pulled, ncalls, nouter, phase, sched>>)
ProduceRow ==
  /\ Top.t = "consumer" /\ Top.pc = "wait" /\ ret.t = "some"
  /\ LET c == ret.it.c IN
     IF Len(c.values) # Len(T.rootOutputs) THEN Panic("expected output names but got other values")
     ELSE /\ rows' = Append(rows, MakeRow(c))
          /\ stack' = TopPc("idle") /\ ret' = RIdle
          /\ ev' = [Ev("Row", 0) EXCEPT !.ctx = MakeRow(c), !.pos = c.src]
          /\ Keep(<<ti, insts, lent, pulled, ncalls, nouter, phase, sched>>)
ConsumerEnd ==
  /\ Top.t = "consumer" /\ Top.pc = "wait" /\ ret.t = "none"
  /\ phase' = "Done" /\ ret' = RIdle /\ stack' = TopPc("done")
  /\ ev' = Tau /\ Keep(<<ti, insts, lent, rows, pulled, ncalls, nouter, sched>>)

(* ------------------------------------------------------------------ building a pipeline (compute_component and friends) *)
UsesCarrierAtBuild(s) == s.k \in {"F", "O"} \/ (s.k = "E" /\ \E j \in 1..Len(s.ops) : s.ops[j].op = "fvar")
BuildDone ==
  /\ Top.t = "build" /\ Top.k > Len(PlanTop)
  /\ stack' = Below /\ ret' = RBuilt
  /\ ev' = Tau /\ Keep(<<ti, insts, lent, rows, pulled, ncalls, nouter, phase, sched>>)
BuildSilent ==        \* an engine stage: nothing observable happens when it is constructed, except that it may read the carrier
  /\ Top.t = "build" /\ Top.k <= Len(PlanTop)
  /\ LET s == StageTop  car == insts[Top.i].car IN
     /\ s.k \in {"E", "X", "F", "O"} \/ (s.k = "S" /\ s.mode # "start")
     /\ IF UsesCarrierAtBuild(s) /\ lent[car] THEN Panic("query was not returned")
        ELSE /\ IF s.k \in {"F", "O"}                 \* cloned_carrier = carrier.clone()
                THEN /\ lent' = Append(lent, lent[car])
                     /\ insts' = SetSt(Top.i, Top.k, [StTop EXCEPT !.c1 = Len(lent) + 1])
                ELSE Keep(<<lent, insts>>)
             /\ stack' = WithTop([Top EXCEPT !.k = @ + 1])
             /\ ev' = Tau /\ Keep(<<ti, ret, rows, pulled, ncalls, nouter, phase, sched>>)
Call ==               \* carrier.query.take(); adapter.resolve_*(...)
  /\ Top.t = "build" /\ Top.k <= Len(PlanTop)
  /\ LET s == StageTop  car == insts[Top.i].car IN
     /\ s.k = "A" \/ (s.k = "S" /\ s.mode = "start")
     /\ IF lent[car] THEN Panic("query was not returned")
        ELSE /\ lent' = [lent EXCEPT ![car] = TRUE]
             /\ ncalls' = ncalls + 1
             /\ insts' = SetSt(Top.i, Top.k, [StTop EXCEPT !.oc = ncalls + 1])
             /\ stack' = Append(WithTop([Top EXCEPT !.k = @ + 1]), Frame("call", Top.i, Top.k, "start"))
             /\ ev' = IF s.k = "S" THEN [Ev("Call", ncalls + 1) EXCEPT !.fn = "start", !.vid = T.rootVid]
                      ELSE [Ev("Call", ncalls + 1) EXCEPT !.fn = s.fn, !.vid = s.vid, !.ty = s.ty, !.field = IF s.fn = "coerce" THEN s.to ELSE s.field, !.eid = s.eid]
             /\ Keep(<<ti, ret, rows, pulled, nouter, phase, sched>>)
CallReturn ==         \* carrier.query = Some(resolve_info.into_inner())
  /\ Top.t = "call" /\ Top.pc = "start"
  /\ lent' = [lent EXCEPT ![insts[Top.i].car] = FALSE]
  /\ stack' = Below
  /\ sched' = IF Eager /\ Len(StTop.buf) < Cap /\ ~StTop.exh THEN Append(sched, "R") ELSE sched
  /\ ev' = Tau /\ Keep(<<ti, insts, ret, rows, pulled, ncalls, nouter, phase>>)

(* ------------------------------------------------------------------ an adapter stage: the general order-preserving resolver *)
Outcome(s, c) ==
  CASE s.fn = "prop"   -> ValOut(Prop(Inst, c.active, s.field))
    [] s.fn = "coerce" -> BoolOut(CanCoerce(c.active, s.to))
    [] s.fn = "nbrs"   -> NbrOut(NbrsOf(c.active, s.name, s.params), 0)
\* the outcome the recorded adapter produced for the context of the YieldInto event at position l of the trace
RecordedOutcome == IF l <= Len(Inst.events) /\ Inst.events[l].e = "YieldInto" THEN Inst.events[l].out ELSE NoOut
IsAdapterFrame == Top.t \in {"call", "next"} /\ Top.k <= Len(PlanTop) /\ StageTop.k = "A"
CanPull == Len(StTop.buf) < Cap /\ ~StTop.exh
\* the adapter advances its input iterator (inside the call if Eager; otherwise when asked for an element)
AdvanceInput ==
  /\ IsAdapterFrame /\ Top.pc \in {"start", "after"}
  /\ \/ Top.t = "call" /\ Eager /\ CanPull
     \/ Top.t = "next" /\ Top.pc = "start" /\ StTop.buf = <<>>                  \* must ask: it has nothing to give (re-polls even after the end)
     \/ Top.t = "next" /\ StTop.buf # <<>> /\ CanPull                           \* read-ahead
  /\ stack' = CallNext(Top.i, Top.k - 1, "wait")
  /\ sched' = IF (Top.t = "call" \/ StTop.buf # <<>>) THEN Append(sched, "P") ELSE sched
  /\ ev' = Ev("Advance", StTop.oc) /\ Keep(<<ti, insts, ret, lent, rows, pulled, ncalls, nouter, phase>>)
YieldInto ==
  /\ IsAdapterFrame /\ Top.pc = "wait" /\ ret.t = "some"
  /\ insts' = SetSt(Top.i, Top.k, [StTop EXCEPT !.buf = Append(@, Item(ret.it.c, IF FromTrace(Inst) THEN RecordedOutcome ELSE Outcome(StageTop, ret.it.c)))])
  /\ stack' = TopPc(IF Top.t = "call" THEN "start" ELSE "after") /\ ret' = RIdle
  /\ ev' = [Ev("YieldInto", StTop.oc) EXCEPT !.ctx = Proj(ret.it.c)]
  /\ Keep(<<ti, lent, rows, pulled, ncalls, nouter, phase, sched>>)
InputExhausted ==
  /\ IsAdapterFrame /\ Top.pc = "wait" /\ ret.t = "none"
  /\ insts' = SetSt(Top.i, Top.k, [StTop EXCEPT !.exh = TRUE])
  /\ stack' = TopPc(IF Top.t = "call" THEN "start" ELSE "after") /\ ret' = RIdle
  /\ ev' = IF StTop.exh THEN Tau ELSE Ev("InExh", StTop.oc)
  /\ Keep(<<ti, lent, rows, pulled, ncalls, nouter, phase, sched>>)
YieldFrom ==
  /\ IsAdapterFrame /\ Top.t = "next" /\ Top.pc \in {"start", "after"} /\ StTop.buf # <<>>
  /\ LET it == Head(StTop.buf)  isN == it.o.t = "nbrs"
         it2 == IF isN THEN Item(it.c, NbrOut(it.o.ids, nouter + 1)) ELSE it IN
     /\ insts' = SetSt(Top.i, Top.k, [StTop EXCEPT !.buf = Tail(@)])
     /\ nouter' = IF isN THEN nouter + 1 ELSE nouter
     /\ stack' = Below /\ ret' = RSome(it2)
     /\ sched' = IF CanPull THEN Append(sched, "Y") ELSE sched
     /\ ev' = [Ev("YieldFrom", StTop.oc) EXCEPT !.fn = StageTop.fn, !.ctx = Proj(it.c), !.v = IF isN THEN NoOut ELSE it.o, !.ny = IF isN THEN nouter + 1 ELSE 0]
     /\ Keep(<<ti, lent, rows, pulled, ncalls, phase>>)
OutputExhausted ==
  /\ IsAdapterFrame /\ Top.t = "next" /\ Top.pc = "after" /\ StTop.buf = <<>>
  /\ insts' = SetSt(Top.i, Top.k, [StTop EXCEPT !.oexh = TRUE])
  /\ stack' = Below /\ ret' = RNone
  /\ ev' = IF StTop.oexh THEN Tau ELSE Ev("OutExh", StTop.oc)
  /\ Keep(<<ti, lent, rows, pulled, ncalls, nouter, phase, sched>>)

(* ------------------------------------------------------------------ the starting-vertex source (an adapter stage whose input is the dataset) *)
IsStartFrame == Top.t \in {"call", "next"} /\ Top.k = 1 /\ insts[Top.i].pk = "root"
StartCanPull == Len(StTop.buf) < Cap /\ ~StTop.exh
FetchStart ==
  /\ IsStartFrame /\ Top.pc \in {"start", "after"}
  /\ \/ Top.t = "call" /\ Eager /\ StartCanPull
     \/ Top.t = "next" /\ Top.pc = "start" /\ StTop.buf = <<>>
     \/ Top.t = "next" /\ StTop.buf # <<>> /\ StartCanPull
  /\ sched' = IF (Top.t = "call" \/ StTop.buf # <<>>) THEN Append(sched, "P") ELSE sched
  /\ IF StTop.n < Len(StartIds)
     THEN /\ insts' = SetSt(Top.i, 1, [StTop EXCEPT !.n = @ + 1, !.buf = Append(@, Item(NewCtx(StartIds[StTop.n + 1], <<>>, StTop.n + 1), NoOut))])
          /\ pulled' = pulled + 1
     ELSE /\ insts' = SetSt(Top.i, 1, [StTop EXCEPT !.exh = TRUE]) /\ pulled' = pulled
  /\ stack' = TopPc(IF Top.t = "call" THEN "start" ELSE "after")
  /\ ev' = Tau /\ Keep(<<ti, ret, lent, rows, ncalls, nouter, phase>>)
YieldStart ==
  /\ IsStartFrame /\ Top.t = "next" /\ Top.pc \in {"start", "after"} /\ StTop.buf # <<>>
  /\ insts' = SetSt(Top.i, 1, [StTop EXCEPT !.buf = Tail(@)])
  /\ stack' = Below /\ ret' = RSome(Head(StTop.buf))
  /\ sched' = IF StartCanPull THEN Append(sched, "Y") ELSE sched
  /\ ev' = [Ev("YieldFrom", StTop.oc) EXCEPT !.fn = "start", !.v = ValOut(IntV(Head(StTop.buf).c.active))]
  /\ Keep(<<ti, lent, rows, pulled, ncalls, nouter, phase>>)
StartExhausted ==
  /\ IsStartFrame /\ Top.t = "next" /\ Top.pc = "after" /\ StTop.buf = <<>>
  /\ insts' = SetSt(Top.i, 1, [StTop EXCEPT !.oexh = TRUE])
  /\ stack' = Below /\ ret' = RNone
  /\ ev' = IF StTop.oexh THEN Tau ELSE Ev("OutExh", StTop.oc)
  /\ Keep(<<ti, lent, rows, pulled, ncalls, nouter, phase, sched>>)

(* ------------------------------------------------------------------ the sources of fold pipelines *)
NbrSourceNext ==      \* the folded edge's neighbour iterator, one new context per neighbour (carrying the imported tags)
  /\ Top.t = "next" /\ Top.k = 1 /\ insts[Top.i].pk = "body"
  /\ LET s == StTop IN
     IF s.n < Len(s.acc)
     THEN /\ insts' = SetSt(Top.i, 1, [s EXCEPT !.n = @ + 1])
          /\ stack' = Below /\ ret' = RSome(Item(NewCtx(s.acc[s.n + 1], s.cur.tags, s.cur.src), NoOut))
          /\ ev' = [Ev("NbrInner", 0) EXCEPT !.ny = s.cur.ny, !.pos = s.n, !.v = ValOut(IntV(s.acc[s.n + 1]))]
     ELSE /\ insts' = SetSt(Top.i, 1, [s EXCEPT !.oexh = TRUE])
          /\ stack' = Below /\ ret' = RNone
          /\ ev' = IF s.oexh THEN Tau ELSE [Ev("NbrExh", 0) EXCEPT !.ny = s.cur.ny]
  /\ Keep(<<ti, lent, rows, pulled, ncalls, nouter, phase, sched>>)
ElemSourceNext ==     \* the collected elements of a fold, replayed into its output pipeline
  /\ Top.t = "next" /\ Top.k = 1 /\ insts[Top.i].pk = "out"
  /\ LET s == StTop IN
     IF s.n < Len(s.acc)
     THEN /\ insts' = SetSt(Top.i, 1, [s EXCEPT !.n = @ + 1]) /\ ret' = RSome(Item(s.acc[s.n + 1], NoOut))
     ELSE /\ insts' = insts /\ ret' = RNone
  /\ stack' = Below
  /\ ev' = Tau /\ Keep(<<ti, lent, rows, pulled, ncalls, nouter, phase, sched>>)

(* ------------------------------------------------------------------ engine stages: map / filter_map chains *)
EngineAsk ==
  /\ Top.t = "next" /\ Top.k > 1 /\ StageTop.k \in {"E", "F", "O"} /\ Top.pc = "start"
  /\ stack' = CallNext(Top.i, Top.k - 1, "wait")
  /\ ev' = Tau /\ Keep(<<ti, insts, ret, lent, rows, pulled, ncalls, nouter, phase, sched>>)
EngineEnd ==
  /\ Top.t = "next" /\ Top.k > 1 /\ StageTop.k \in {"E", "F", "O"} /\ Top.pc = "wait" /\ ret.t = "none"
  /\ stack' = Below      \* ret stays none
  /\ ev' = Tau /\ Keep(<<ti, insts, ret, lent, rows, pulled, ncalls, nouter, phase, sched>>)
EngineStep ==
  /\ Top.t = "next" /\ StageTop.k = "E" /\ Top.pc = "wait" /\ ret.t = "some"
  /\ LET r == ApplyOps(ret.it, StageTop.ops) IN
     IF r.panic # "" THEN Panic(r.panic)
     ELSE /\ IF r.ok THEN stack' = Below /\ ret' = RSome(r.it)
                     ELSE stack' = TopPc("start") /\ ret' = RIdle           \* dropped: ask again
          /\ ev' = Tau /\ Keep(<<ti, insts, lent, rows, pulled, ncalls, nouter, phase, sched>>)

(* ------------------------------------------------------------------ edge expansion (flat_map over EdgeExpander / RecursiveEdgeExpander / unpack) *)
Expander(mode, it) ==
  IF mode = "unpack" THEN [t |-> "list", l |-> Unpack(it.c), pos |-> 0]
  ELSE [t |-> mode, c |-> it.c, b |-> it.c, ids |-> it.o.ids, pos |-> 0, hasN |-> FALSE, moved |-> FALSE, ny |-> it.o.ny, nEnd |-> FALSE]
ExpandAsk ==          \* no current expander: ask upstream (a flat_map is fused: never again after the end)
  /\ Top.t = "next" /\ StageTop.k = "X" /\ Top.pc = "start" /\ StTop.cur.t = "none"
  /\ IF StTop.exh THEN stack' = Below /\ ret' = RNone
     ELSE stack' = CallNext(Top.i, Top.k - 1, "wait") /\ ret' = ret
  /\ ev' = Tau /\ Keep(<<ti, insts, lent, rows, pulled, ncalls, nouter, phase, sched>>)
ExpandGot ==
  /\ Top.t = "next" /\ StageTop.k = "X" /\ Top.pc = "wait" /\ ret.t \in {"some", "none"}
  /\ IF ret.t = "none"
     THEN /\ insts' = SetSt(Top.i, Top.k, [StTop EXCEPT !.exh = TRUE]) /\ stack' = Below /\ ret' = RNone
     ELSE /\ insts' = SetSt(Top.i, Top.k, [StTop EXCEPT !.cur = Expander(StageTop.mode, ret.it)]) /\ stack' = TopPc("start") /\ ret' = RIdle
  /\ ev' = Tau /\ Keep(<<ti, lent, rows, pulled, ncalls, nouter, phase, sched>>)
\* EdgeExpander::next: one neighbour per call; at the end an absent-vertex context if the edge is optional and was empty
\* (or the active vertex itself was absent)
ExpandPlain ==
  /\ Top.t = "next" /\ StageTop.k = "X" /\ Top.pc = "start" /\ StTop.cur.t \in {"plain", "opt"}
  /\ LET x == StTop.cur IN
     IF x.pos < Len(x.ids)
     THEN /\ insts' = SetSt(Top.i, Top.k, [StTop EXCEPT !.cur = [x EXCEPT !.pos = @ + 1, !.hasN = TRUE]])
          /\ stack' = Below /\ ret' = RSome(Item(Split(x.c, x.ids[x.pos + 1]), NoOut))
          /\ ev' = [Ev("NbrInner", 0) EXCEPT !.ny = x.ny, !.pos = x.pos, !.v = ValOut(IntV(x.ids[x.pos + 1]))]
          /\ phase' = phase
     ELSE IF x.c.active = NONE /\ x.hasN THEN Panic("neighbors for a non-existent vertex") /\ UNCHANGED insts
     ELSE /\ insts' = SetSt(Top.i, Top.k, [StTop EXCEPT !.cur = NoCur])
          /\ IF x.c.active = NONE \/ (~x.hasN /\ x.t = "opt")
             THEN stack' = Below /\ ret' = RSome(Item(Split(x.c, NONE), NoOut))
             ELSE stack' = stack /\ ret' = ret                                      \* this expander is finished: loop
          /\ ev' = [Ev("NbrExh", 0) EXCEPT !.ny = x.ny] /\ phase' = phase
  /\ Keep(<<ti, lent, rows, pulled, ncalls, nouter, sched>>)
\* RecursiveEdgeExpander::next: the first neighbour carries the context itself as a piggyback rider
ExpandRec ==
  /\ Top.t = "next" /\ StageTop.k = "X" /\ Top.pc = "start" /\ StTop.cur.t = "rec"
  /\ LET x == StTop.cur IN
     IF ~x.nEnd /\ x.pos < Len(x.ids)
     THEN LET v == x.ids[x.pos + 1]
              out == IF ~x.moved THEN [Split(x.c, v) EXCEPT !.piggy = << EnsureSuspended(x.c) >>] ELSE Split(x.b, v)
              nx == [x EXCEPT !.pos = @ + 1, !.hasN = TRUE, !.moved = TRUE, !.b = IF x.moved THEN x.b ELSE Split(x.c, NONE)]
          IN /\ insts' = SetSt(Top.i, Top.k, [StTop EXCEPT !.cur = nx])
             /\ stack' = Below /\ ret' = RSome(Item(out, NoOut))
             /\ ev' = [Ev("NbrInner", 0) EXCEPT !.ny = x.ny, !.pos = x.pos, !.v = ValOut(IntV(v))]
     ELSE IF ~x.nEnd
     THEN \* the neighbour iterator ends now; self.context.take() follows in the same call
          /\ insts' = SetSt(Top.i, Top.k, [StTop EXCEPT !.cur = IF x.moved THEN NoCur ELSE [x EXCEPT !.nEnd = TRUE, !.moved = TRUE]])
          /\ IF x.moved THEN stack' = stack /\ ret' = ret ELSE stack' = Below /\ ret' = RSome(Item(x.c, NoOut))
          /\ ev' = [Ev("NbrExh", 0) EXCEPT !.ny = x.ny]
     ELSE /\ insts' = SetSt(Top.i, Top.k, [StTop EXCEPT !.cur = NoCur])
          /\ stack' = stack /\ ret' = ret /\ ev' = Tau
  /\ Keep(<<ti, lent, rows, pulled, ncalls, nouter, phase, sched>>)
ExpandList ==
  /\ Top.t = "next" /\ StageTop.k = "X" /\ Top.pc = "start" /\ StTop.cur.t = "list"
  /\ LET x == StTop.cur IN
     IF x.pos < Len(x.l)
     THEN /\ insts' = SetSt(Top.i, Top.k, [StTop EXCEPT !.cur = [x EXCEPT !.pos = @ + 1]])
          /\ stack' = Below /\ ret' = RSome(Item(x.l[x.pos + 1], NoOut))
     ELSE /\ insts' = SetSt(Top.i, Top.k, [StTop EXCEPT !.cur = NoCur]) /\ stack' = stack /\ ret' = ret
  /\ ev' = Tau /\ Keep(<<ti, lent, rows, pulled, ncalls, nouter, phase, sched>>)

(* ------------------------------------------------------------------ @fold: the body pipeline (compute_fold's filter_map closure) *)
FoldEnter ==          \* a context and its neighbour iterator arrive: build the body pipeline on the fold's own carrier clone
  /\ Top.t = "next" /\ StageTop.k = "F" /\ Top.pc = "wait" /\ ret.t = "some"
  /\ LET F == FoldItem(StageTop.eid)  it == ret.it  j == Len(insts) + 1
         body == NewInst("body", F.eid, StTop.c1, Len(T.folds[F.eid].body))
         src == [SS0 EXCEPT !.acc = it.o.ids, !.cur = [t |-> "nsrc", tags |-> it.c.tags, src |-> it.c.src, ny |-> it.o.ny]]
     IN /\ insts' = Append(SetSt(Top.i, Top.k, [StTop EXCEPT !.cur = [t |-> "ctx", c |-> it.c], !.acc = <<>>]), [body EXCEPT !.st[1] = src])
        /\ stack' = Append(TopPc("built"), Frame("build", j, 1, "start"))
        /\ ret' = RIdle
  /\ ev' = Tau /\ Keep(<<ti, lent, rows, pulled, ncalls, nouter, phase, sched>>)
FoldMx == T.folds[StageTop.eid].mx
FoldMn == T.folds[StageTop.eid].mn
FoldFinish(c, elemsOrAbsent) ==      \* insert the folded contexts, drop the imported tags, pop the body pipeline
  LET F == FoldItem(StageTop.eid)
      keys == T.folds[F.eid].impKeys
      c2 == [c EXCEPT !.folded = Put(@, F.eid, elemsOrAbsent), !.tags = SelectSeq(@, LAMBDA p : p[1] \notin keys)]
  IN /\ insts' = SubSeq(SetSt(Top.i, Top.k, [StTop EXCEPT !.cur = NoCur, !.acc = <<>>]), 1, Len(insts) - 1)
     /\ stack' = Below /\ ret' = RSome(Item(c2, NoOut))
FoldDiscard ==        \* more elements than the count filter allows: drop the context, ask for the next one
  /\ insts' = SubSeq(SetSt(Top.i, Top.k, [StTop EXCEPT !.cur = NoCur, !.acc = <<>>]), 1, Len(insts) - 1)
  /\ stack' = TopPc("start") /\ ret' = RIdle
FoldBuilt ==
  /\ Top.t = "next" /\ StageTop.k = "F" /\ Top.pc = "built" /\ ret.t = "built"
  /\ LET c == StTop.cur.c  F == FoldItem(StageTop.eid) IN
     IF Has(c.folded, F.eid) THEN Panic("folded_contexts.insert_or_error") /\ UNCHANGED <<insts, stack, ret>>
     ELSE IF VertAt(c, F.from) = NONE THEN FoldFinish(c, [ex |-> FALSE, elems |-> <<>>]) /\ ev' = Tau /\ phase' = phase
     ELSE /\ stack' = TopPc("collect") /\ ret' = RIdle /\ insts' = insts /\ ev' = Tau /\ phase' = phase
  /\ Keep(<<ti, lent, rows, pulled, ncalls, nouter, sched>>)
FoldCollect ==        \* collect_fold_elements, one pull at a time
  /\ Top.t = "next" /\ StageTop.k = "F" /\ Top.pc = "collect"
  /\ LET n == Len(StTop.acc)  mx == FoldMx  mn == FoldMn  c == StTop.cur.c  last == Len(insts) IN
     IF (~mx.some) /\ mn.some /\ n >= mn.n                                   \* take(min) is satisfied: stop pulling
     THEN FoldFinish(c, [ex |-> TRUE, elems |-> StTop.acc])
     ELSE /\ stack' = CallNext(last, Len(PlanOf(insts[last])), "collectwait") /\ insts' = insts /\ ret' = ret
  /\ ev' = Tau /\ Keep(<<ti, lent, rows, pulled, ncalls, nouter, phase, sched>>)
FoldCollected ==
  /\ Top.t = "next" /\ StageTop.k = "F" /\ Top.pc = "collectwait" /\ ret.t \in {"some", "none"}
  /\ LET n == Len(StTop.acc)  mx == FoldMx  c == StTop.cur.c IN
     IF ret.t = "none" THEN FoldFinish(c, [ex |-> TRUE, elems |-> StTop.acc])
     ELSE IF mx.some /\ n >= mx.n THEN FoldDiscard                             \* the probe found one element too many
     ELSE /\ insts' = SetSt(Top.i, Top.k, [StTop EXCEPT !.acc = Append(@, ret.it.c)])
          /\ stack' = TopPc("collect") /\ ret' = RIdle
  /\ ev' = Tau /\ Keep(<<ti, lent, rows, pulled, ncalls, nouter, phase, sched>>)

(* ------------------------------------------------------------------ @fold: outputs (compute_fold's final map closure) *)
ListOf(ctxs, F(_)) == ListV([j \in 1..Len(ctxs) |-> F(ctxs[j])])
FoldOutEnter ==
  /\ Top.t = "next" /\ StageTop.k = "O" /\ Top.pc = "wait" /\ ret.t = "some"
  /\ LET F == FoldItem(StageTop.eid)  c == ret.it.c  f == Lookup(c.folded, F.eid)
         outs == T.folds[F.eid].outputs
         cnt == [j \in 1..Len(F.cntOut) |-> << <<F.eid, F.cntOut[j]>>, IF f.ex THEN UIntV(Len(f.elems)) ELSE Null >>]
         c1 == [c EXCEPT !.fvals = @ \o cnt]
         dflt == IF f.ex THEN ListV(<<>>) ELSE Null
         names == T.folds[F.eid].names
     IN IF \E j \in 1..Len(cnt) : Has(c.fvals, cnt[j][1]) THEN Panic("this fold output was already computed") /\ UNCHANGED <<insts, stack, ret>>
        ELSE IF (~f.ex) \/ f.elems = <<>>
        THEN /\ stack' = Below /\ ret' = RSome(Item([c1 EXCEPT !.fvals = @ \o [j \in 1..Len(names) |-> <<names[j], dflt>>]], NoOut))
             /\ insts' = insts /\ ev' = Tau /\ phase' = phase
        ELSE LET j == Len(insts) + 1
                 out == NewInst("out", F.eid, StTop.c1, Len(T.folds[F.eid].out))
             IN /\ insts' = Append(SetSt(Top.i, Top.k, [StTop EXCEPT !.cur = [t |-> "ctx", c |-> c1], !.acc = <<>>]),
                                   [out EXCEPT !.st[1] = [SS0 EXCEPT !.acc = f.elems]])
                /\ stack' = Append(TopPc("built"), Frame("build", j, 1, "start"))
                /\ ret' = RIdle /\ ev' = Tau /\ phase' = phase
  /\ Keep(<<ti, lent, rows, pulled, ncalls, nouter, sched>>)
FoldOutBuilt ==
  /\ Top.t = "next" /\ StageTop.k = "O" /\ Top.pc = "built" /\ ret.t = "built"
  /\ stack' = TopPc("drain") /\ ret' = RIdle
  /\ ev' = Tau /\ Keep(<<ti, insts, lent, rows, pulled, ncalls, nouter, phase, sched>>)
FoldOutDrain ==
  /\ Top.t = "next" /\ StageTop.k = "O" /\ Top.pc = "drain"
  /\ stack' = CallNext(Len(insts), Len(PlanOf(insts[Len(insts)])), "drainwait")
  /\ ev' = Tau /\ Keep(<<ti, insts, ret, lent, rows, pulled, ncalls, nouter, phase, sched>>)
FoldOutDrained ==
  /\ Top.t = "next" /\ StageTop.k = "O" /\ Top.pc = "drainwait" /\ ret.t \in {"some", "none"}
  /\ IF ret.t = "some"
     THEN /\ insts' = SetSt(Top.i, Top.k, [StTop EXCEPT !.acc = Append(@, ret.it.c)])
          /\ stack' = TopPc("drain") /\ ret' = RIdle
     ELSE LET F == FoldItem(StageTop.eid)  outs == T.folds[F.eid].outputs  els == StTop.acc  c == StTop.cur.c
              own == [j \in 1..Len(outs) |-> << <<F.eid, outs[j].name>>, ListV([x \in 1..Len(els) |-> els[x].values[j]]) >>]
              below == IF els = <<>> THEN <<>> ELSE
                       [j \in 1..Len(els[1].fvals) |-> << els[1].fvals[j][1], ListV([x \in 1..Len(els) |-> Lookup(els[x].fvals, els[1].fvals[j][1])]) >>]
          IN /\ insts' = SubSeq(SetSt(Top.i, Top.k, [StTop EXCEPT !.cur = NoCur, !.acc = <<>>]), 1, Len(insts) - 1)
             /\ stack' = Below /\ ret' = RSome(Item([c EXCEPT !.fvals = @ \o own \o below], NoOut))
  /\ ev' = Tau /\ Keep(<<ti, lent, rows, pulled, ncalls, nouter, phase, sched>>)

(* ------------------------------------------------------------------ next-state relation *)
Running == phase = "Run"
Next ==
  /\ Running
  /\ \/ ConsumerStart \/ ConsumerBuilt \/ ConsumerRequest \/ ProduceRow \/ ConsumerEnd
     \/ BuildDone \/ BuildSilent \/ Call \/ CallReturn
     \/ AdvanceInput \/ YieldInto \/ InputExhausted \/ YieldFrom \/ OutputExhausted
     \/ FetchStart \/ YieldStart \/ StartExhausted
     \/ NbrSourceNext \/ ElemSourceNext
     \/ EngineAsk \/ EngineEnd \/ EngineStep
     \/ ExpandAsk \/ ExpandGot \/ ExpandPlain \/ ExpandRec \/ ExpandList
     \/ FoldEnter \/ FoldBuilt \/ FoldCollect \/ FoldCollected
     \/ FoldOutEnter \/ FoldOutBuilt \/ FoldOutDrain \/ FoldOutDrained
  /\ ti' = ti
Spec == Init /\ [][Next]_vars /\ WF_vars(Next)

(* ------------------------------------------------------------------ properties *)
NoPanic == phase # "Panic"
TypeOK ==
  /\ phase \in {"Run", "Done", "Panic"} /\ ret.t \in {"idle", "none", "some", "built"}
  /\ Len(stack) >= 1 /\ stack[1].t = "consumer"
  /\ \A j \in 2..Len(stack) : stack[j].t \in {"build", "call", "next"} /\ stack[j].i \in 1..Len(insts)
  /\ \A j \in 1..Len(insts) : insts[j].car \in 1..Len(lent)
\* C02 (carrier discipline): a carrier is lent exactly while one of the resolver calls made on it is on the stack
LentIffInCall == \A c \in 1..Len(lent) : lent[c] <=> \E j \in 1..Len(stack) : stack[j].t = "call" /\ insts[stack[j].i].car = c
\* C03: without read-ahead, nothing is fetched unless the consumer is waiting, and a row comes from the last start vertex fetched
Lazy == (Cap = 1 /\ ~Eager) =>
          /\ (Top.t = "consumer" /\ Top.pc \in {"init", "built", "idle"} /\ rows = <<>>) => pulled = 0
          /\ ev.e = "Row" => ev.pos = pulled
          /\ (Top.t = "consumer") => \A j \in 1..Len(insts[1].st) : insts[1].st[j].buf = <<>>
Termination == <>(phase \in {"Done", "Panic"})
\* history / observation variables hidden from the state fingerprint in exhaustive runs
View == <<ti, insts, stack, ret, lent, rows, pulled, ncalls, nouter, phase>>
=============================================================================
