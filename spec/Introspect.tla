----------------------------- MODULE Introspect -----------------------------
(***************************************************************************)
(* C20 (DESIGN 6/C20): what the schema-introspection adapter must report   *)
(* for a valid schema document, as the rows of a fixed set of queries over *)
(* the introspection schema, derived from the abstract document alone.     *)
(* A row is a sequence of <<output name, value>> pairs (as in Sem).        *)
(***************************************************************************)
EXTENDS Schema, SequencesExt
FlatMapI(s, F(_)) == FlattenSeq(<<>> \o [i \in 1..Len(s) |-> F(s[i])])
Str(chars) == StrV(chars)
RECURSIVE RenderChars(_)
RenderChars(t) ==
  LET bang == IF t.mods[1] THEN <<>> ELSE <<"!">> IN
  IF Len(t.mods) > 1 THEN <<"[">> \o RenderChars([base |-> t.base, mods |-> Tail(t.mods)]) \o <<"]">> \o bang ELSE t.base \o bang
NonRoot(d) == SelectSeq(d.types, LAMBDA t : t.name # d.query)
RootT(d) == Def(d, d.query)
Props(d, t) == SelectSeq(t.fields, LAMBDA f : ~IsVertex(d, f.ty.base))
Edges(d, t) == SelectSeq(t.fields, LAMBDA f : IsVertex(d, f.ty.base))
ToMany(f) == Len(f.ty.mods) > 1
AtLeastOne(f) == ~f.ty.mods[1]
\* the `default` property: the declared default, else null for a nullable parameter, else absent
DefaultOf(p) == IF p.hasDefault THEN [k |-> "some", v |-> p.default] ELSE IF p.ty.mods[1] THEN [k |-> "some", v |-> Null] ELSE [k |-> "none", v |-> Null]

Expected(d, q) ==
  CASE q = "types" -> [k \in 1..Len(NonRoot(d)) |-> << <<"name", Str(NonRoot(d)[k].name)>>, <<"is_interface", BoolV(NonRoot(d)[k].kind = "interface")>> >>]
    [] q = "schema_types" -> [k \in 1..Len(NonRoot(d)) |-> << <<"name", Str(NonRoot(d)[k].name)>> >>]
    [] q = "implements" -> FlatMapI(NonRoot(d), LAMBDA t : [j \in 1..Len(t.implements) |-> << <<"t", Str(t.name)>>, <<"i", Str(t.implements[j])>> >>])
    [] q = "implementer" -> FlatMapI(NonRoot(d), LAMBDA t :
           LET subs == SelectSeq(NonRoot(d), LAMBDA s : s.name # t.name /\ t.name \in Impl(s))
           IN [j \in 1..Len(subs) |-> << <<"t", Str(t.name)>>, <<"s", Str(subs[j].name)>> >>])
    [] q = "properties" -> FlatMapI(NonRoot(d), LAMBDA t :
           [j \in 1..Len(Props(d, t)) |-> << <<"t", Str(t.name)>>, <<"p", Str(Props(d, t)[j].name)>>, <<"ty", Str(RenderChars(Props(d, t)[j].ty))>> >>])
    [] q = "edges" -> FlatMapI(NonRoot(d), LAMBDA t :
           [j \in 1..Len(Edges(d, t)) |-> LET f == Edges(d, t)[j] IN
              << <<"t", Str(t.name)>>, <<"e", Str(f.name)>>, <<"to_many", BoolV(ToMany(f))>>, <<"at_least_one", BoolV(AtLeastOne(f))>>, <<"target", Str(f.ty.base)>> >>])
    [] q = "params" -> FlatMapI(NonRoot(d), LAMBDA t : FlatMapI(Edges(d, t), LAMBDA f :
           [j \in 1..Len(f.params) |-> << <<"t", Str(t.name)>>, <<"e", Str(f.name)>>, <<"p", Str(f.params[j].name)>>, <<"ty", Str(RenderChars(f.params[j].ty))>>, <<"d", DefaultOf(f.params[j])>> >>]))
    [] q \in {"entrypoints", "schema_entrypoints"} ->
           [j \in 1..Len(RootT(d).fields) |-> LET f == RootT(d).fields[j] IN
              IF q = "entrypoints" THEN << <<"e", Str(f.name)>>, <<"to_many", BoolV(ToMany(f))>>, <<"at_least_one", BoolV(AtLeastOne(f))>>, <<"target", Str(f.ty.base)>> >>
              ELSE << <<"e", Str(f.name)>> >>]
    [] q = "entry_params" -> FlatMapI(RootT(d).fields, LAMBDA f :
           [j \in 1..Len(f.params) |-> << <<"e", Str(f.name)>>, <<"p", Str(f.params[j].name)>>, <<"ty", Str(RenderChars(f.params[j].ty))>>, <<"d", DefaultOf(f.params[j])>> >>])
=============================================================================
