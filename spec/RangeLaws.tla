----------------------------- MODULE RangeLaws -----------------------------
(***************************************************************************)
(* Unbounded companion of MC_Candidates (C06): the range part of the       *)
(* candidate algebra, proved with TLAPS for ALL integers instead of being  *)
(* enumerated by TLC over a probe universe.                                *)
(*                                                                         *)
(* `RangeIntersect`, `Degenerate` and `RangeContains` below are the same    *)
(* text as in Candidates.tla (bin/check C06 compares the two bodies; a       *)
(* difference is model drift), the value order being the integers: Lt is <, *)
(* Le is =<, ValueEq is =.  Null is not an integer; the null flag is the   *)
(* conjunction of the two flags and needs no proof beyond propositional    *)
(* logic (NullLaw).  A bound always carries a field v (ignored when the    *)
(* bound is "unb") so that the back-end provers see one record type.       *)
(*                                                                         *)
(* What is proved (tlapm, SMT back end, no bound on the integers):         *)
(*   IntersectExactInt   x in a /\ b  <=>  x in a and x in b               *)
(*   DegenerateEmpty     a range normalised to Impossible / Single(Null)   *)
(*                       contains no non-null value                        *)
(*   ExcludeExactInt     excluding v yields a subset that keeps every      *)
(*                       x # v, and removes v when v is an inclusive end   *)
(*   PointRange          a range [v, v] contains exactly v                 *)
(***************************************************************************)
EXTENDS Integers

Lt(x, y) == x < y
Le(x, y) == x <= y

BoundT == [t : {"unb", "inc", "exc"}, v : Int]
RangeT == [lo : BoundT, hi : BoundT, nullIncl : BOOLEAN]

Exc(x) == [t |-> "exc", v |-> x]
Range(lo, hi, n) == [lo |-> lo, hi |-> hi, nullIncl |-> n]

\* the non-null half of Candidates!RangeContains
RangeContainsV(r, x) ==
       /\ CASE r.lo.t = "inc" -> Le(r.lo.v, x) [] r.lo.t = "exc" -> Lt(r.lo.v, x) [] OTHER -> TRUE
       /\ CASE r.hi.t = "inc" -> Le(x, r.hi.v) [] r.hi.t = "exc" -> Lt(x, r.hi.v) [] OTHER -> TRUE

Degenerate(r) ==
  CASE r.lo.t = "unb" \/ r.hi.t = "unb" -> FALSE
    [] r.lo.t = "inc" /\ r.hi.t = "inc" -> Lt(r.hi.v, r.lo.v)
    [] OTHER -> Le(r.hi.v, r.lo.v)

\*BEGIN RangeIntersect
RangeIntersect(a, b) ==
  LET lo == CASE a.lo.t = "inc" ->
                   (CASE b.lo.t = "inc" -> IF Lt(a.lo.v, b.lo.v) THEN b.lo ELSE a.lo
                      [] b.lo.t = "exc" -> IF Le(a.lo.v, b.lo.v) THEN b.lo ELSE a.lo
                      [] OTHER -> a.lo)
              [] a.lo.t = "exc" ->
                   (CASE b.lo.t = "unb" -> a.lo [] OTHER -> IF Lt(a.lo.v, b.lo.v) THEN b.lo ELSE a.lo)
              [] OTHER -> b.lo
      hi == CASE a.hi.t = "inc" ->
                   (CASE b.hi.t = "inc" -> IF Lt(b.hi.v, a.hi.v) THEN b.hi ELSE a.hi
                      [] b.hi.t = "exc" -> IF Le(b.hi.v, a.hi.v) THEN b.hi ELSE a.hi
                      [] OTHER -> a.hi)
              [] a.hi.t = "exc" ->
                   (CASE b.hi.t = "unb" -> a.hi [] OTHER -> IF Lt(b.hi.v, a.hi.v) THEN b.hi ELSE a.hi)
              [] OTHER -> b.hi
  IN Range(lo, hi, a.nullIncl /\ b.nullIncl)
\*END RangeIntersect

\* the non-null half of Candidates!Exclude on a range
ExcludeV(c, v) ==
  LET lo == IF c.lo.t = "inc" /\ c.lo.v = v THEN Exc(v) ELSE c.lo
      hi == IF c.hi.t = "inc" /\ c.hi.v = v THEN Exc(v) ELSE c.hi
  IN Range(lo, hi, c.nullIncl)

-----------------------------------------------------------------------------
THEOREM IntersectClosed == \A a, b \in RangeT : RangeIntersect(a, b) \in RangeT
  BY DEF RangeIntersect, RangeT, BoundT, Range, Lt, Le

THEOREM IntersectExactInt ==
  \A a, b \in RangeT : \A x \in Int :
     RangeContainsV(RangeIntersect(a, b), x) <=> (RangeContainsV(a, x) /\ RangeContainsV(b, x))
  BY DEF RangeIntersect, RangeContainsV, RangeT, BoundT, Range, Lt, Le

THEOREM NullLaw ==
  \A a, b \in RangeT : RangeIntersect(a, b).nullIncl <=> (a.nullIncl /\ b.nullIncl)
  BY DEF RangeIntersect, RangeT, BoundT, Range

THEOREM DegenerateEmpty ==
  \A r \in RangeT : Degenerate(r) => \A x \in Int : ~RangeContainsV(r, x)
  BY DEF Degenerate, RangeContainsV, RangeT, BoundT, Lt, Le

THEOREM ExcludeExactInt ==
  \A c \in RangeT : \A v, x \in Int :
     /\ RangeContainsV(ExcludeV(c, v), x) => RangeContainsV(c, x)
     /\ (RangeContainsV(c, x) /\ x # v) => RangeContainsV(ExcludeV(c, v), x)
     /\ ((c.lo.t = "inc" /\ c.lo.v = v) \/ (c.hi.t = "inc" /\ c.hi.v = v)) => ~RangeContainsV(ExcludeV(c, v), v)
  BY DEF ExcludeV, RangeContainsV, RangeT, BoundT, Range, Exc, Lt, Le

THEOREM PointRange ==
  \A v, x \in Int : RangeContainsV(Range([t |-> "inc", v |-> v], [t |-> "inc", v |-> v], FALSE), x) <=> x = v
  BY DEF RangeContainsV, Range, Lt, Le
=============================================================================
