------------------------------ MODULE JudgeCalls ------------------------------
(* C21 / C05 binding C: the resolver-call log of the real engine judged against Contract.tla. One state per instance. *)
EXTENDS Contract, Json, IOUtils
Insts == ndJsonDeserialize(IOEnv.INST)
Obs == ndJsonDeserialize(IOEnv.OBS)
VARIABLES i, ph
Init == i \in 1..Len(Insts) /\ ph = 0
Next == ph = 0 /\ ph' = 1 /\ i' = i
Judged == ph = 0 \/
  LET inst == Insts[i]  calls == Obs[i].calls  id == inst.id
      bad21 == {k \in 1..Len(calls) : ~ContractOK(inst, calls[k])}
      bad05 == {k \in 1..Len(calls) : ~RequiredComplete(calls, k)}
  IN /\ IF bad21 # {} THEN LET k == CHOOSE k \in bad21 : TRUE IN PrintT(<<"VERDICT", id, "C21.bad", ToJson([call |-> calls[k], n |-> Cardinality(bad21)])>>) ELSE TRUE
     /\ IF bad05 # {} THEN LET k == CHOOSE k \in bad05 : TRUE IN PrintT(<<"VERDICT", id, "C05.bad", ToJson([call |-> calls[k], n |-> Cardinality(bad05)])>>) ELSE TRUE
     /\ PrintT(<<"VERDICT", id, "calls.done", Len(calls)>>)
=============================================================================
