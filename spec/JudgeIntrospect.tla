--------------------------- MODULE JudgeIntrospect ---------------------------
(* C20 binding C: the rows the real SchemaAdapter returns for each fixed introspection query, compared as bags with Introspect!Expected. *)
EXTENDS Introspect, Json, IOUtils, TLC
Cases == ndJsonDeserialize(IOEnv.INST)      \* [id, doc, q, rows]
VARIABLES i, ph
Init == i \in 1..Len(Cases) /\ ph = 0
Next == ph = 0 /\ ph' = 1 /\ i' = i
VEq(a, b) == IF a.k \in {"some", "none"} \/ b.k \in {"some", "none"} THEN a.k = b.k /\ (a.k = "none" \/ ValueEq(a.v, b.v)) ELSE ValueEq(a, b)
RowEqI(a, b) == Len(a) = Len(b) /\ \A x \in 1..Len(a) : \E y \in 1..Len(b) : b[y][1] = a[x][1] /\ VEq(a[x][2], b[y][2])
CountI(rows, r) == Cardinality({x \in 1..Len(rows) : RowEqI(r, rows[x])})
BagEqI(a, b) == Len(a) = Len(b) /\ \A x \in 1..Len(a) : CountI(a, a[x]) = CountI(b, a[x])
Judged == ph = 0 \/
  LET c == Cases[i]  want == Expected(c.doc, c.q) IN
  IF BagEqI(want, c.rows) THEN PrintT(<<"VERDICT", c.id, "C20.ok", Len(want)>>) ELSE PrintT(<<"VERDICT", c.id, "C20.bad", ToJson(want)>>)
=============================================================================
