------------------------------ MODULE JudgeSem ------------------------------
(***************************************************************************)
(* Binding C (DESIGN 5.4): judges observations exported from the real      *)
(* engine against Sem / Query.  One TLC state per instance; verdict lines  *)
(* on stdout, one per observer:                                            *)
(*   C01  bag of real rows = bag of Sem rows                               *)
(*   C13  row keys = declared names, values fit the declared types, and    *)
(*        the declared types are the ones the language defines             *)
(*   C04  bag of rows produced through the hint-pruning adapter = Sem      *)
(***************************************************************************)
EXTENDS Query, Json, IOUtils

Insts == ndJsonDeserialize(IOEnv.INST)
Obs == ndJsonDeserialize(IOEnv.OBS)
\* two phases so that the (expensive) verdict of each instance is computed by a TLC worker, in parallel
VARIABLES i, ph
Init == i \in 1..Len(Insts) /\ ph = 0
Next == ph = 0 /\ ph' = 1 /\ i' = i

Decl(o) == [j \in 1..Len(o.declared) |-> <<o.declared[j][1], JT(o.declared[j][2])>>]
Say(id, cls, detail) == PrintT(<<"VERDICT", id, cls, detail>>)

Verdict(k) ==
  LET o == Obs[k]  inst == [Insts[k] EXCEPT !.args = o.args]  id == Insts[k].id IN
  IF o.t # "ok" THEN Say(id, "skip", o.t)
  ELSE LET sem == Rows(inst)
           decl == Decl(o)
           want == OutTypes(inst)
       IN /\ IF BagEq(sem, o.rows) THEN Say(id, "C01.ok", Len(sem)) ELSE Say(id, "C01.mismatch", ToJson(sem))
          /\ IF ~SameDecl(want, decl) THEN Say(id, "C13.baddecl", ToJson([want |-> want, got |-> decl]))
             ELSE IF \A r \in 1..Len(o.rows) : RowWellTyped(o.rows[r], decl) THEN Say(id, "C13.ok", Len(decl))
             ELSE Say(id, "C13.badrow", ToJson(decl))
          /\ IF "pruned" \in DOMAIN o
             THEN (IF BagEq(sem, o.pruned) THEN Say(id, "C04.ok", Len(sem)) ELSE Say(id, "C04.mismatch", ToJson(sem)))
             ELSE TRUE
Judged == ph = 0 \/ Verdict(i)
=============================================================================
