------------------------------- MODULE Values -------------------------------
(***************************************************************************)
(* The field-value domain of Trustfall and the meaning of every comparison *)
(* (DESIGN 3.1).  Pure definitions, no state.                              *)
(*                                                                         *)
(* Values are uniformly tagged records (TLC refuses to compare a record    *)
(* with a string):                                                         *)
(*   [k |-> "null"]                                                        *)
(*   [k |-> "int",  r |-> "i" | "u", v |-> <<a, b, c>>]                     *)
(*        the integer x with x + 2^63 = a*2^48 + b*2^24 + c  (offset       *)
(*        binary, three limbs < 2^24, so that every signed and unsigned    *)
(*        64-bit value is exact although TLC integers are 32-bit);  r is   *)
(*        the *representation* (signed / unsigned), which must never       *)
(*        matter for equality or order                                     *)
(*   [k |-> "float", v |-> n]        the finite float n/2                  *)
(*   [k |-> "str",  v |-> <<"a","b">>]   one element per character         *)
(*   [k |-> "bool", v |-> TRUE]                                            *)
(*   [k |-> "enum", v |-> <<chars>>]                                       *)
(*   [k |-> "list", v |-> <<values>>]                                      *)
(***************************************************************************)
EXTENDS Naturals, Integers, Sequences, FiniteSets

Null == [k |-> "null"]
IsNull(v) == v.k = "null"
\* small integers (|n| < 2^24), signed representation: 2^63 = 32768 * 2^48
IntV(n) == IF n >= 0 THEN [k |-> "int", r |-> "i", v |-> <<32768, 0, n>>]
                     ELSE [k |-> "int", r |-> "i", v |-> <<32767, 16777215, 16777216 + n>>]
\* small naturals in the unsigned representation (fold counts are Uint64)
UIntV(n) == [k |-> "int", r |-> "u", v |-> <<32768, 0, n>>]
BoolV(b) == [k |-> "bool", v |-> b]
StrV(s) == [k |-> "str", v |-> s]
ListV(s) == [k |-> "list", v |-> s]
\* the small natural number denoted by a value that is known to be one (fold counts, ids)
SmallNat(v) == v.v[3]

(* ---------------- limb arithmetic: order only, never arithmetic on values ---------------- *)
LimbLess(x, y) == \/ x[1] < y[1]
                  \/ x[1] = y[1] /\ x[2] < y[2]
                  \/ x[1] = y[1] /\ x[2] = y[2] /\ x[3] < y[3]
NumLess(a, b) == LimbLess(a.v, b.v)          \* a, b of kind "int"
NumEq(a, b) == a.v = b.v

(* ---------------- characters: ASCII order over the alphabet the generators use ---------------- *)
Alphabet == << " ", "$", "(", ")", "*", "+", "-", ".", "0", "1", "2", "3", "4", "5", "6", "7", "8", "9", "?",
   "A", "B", "C", "D", "E", "F", "G", "H", "I", "J", "K", "L", "M", "N", "O", "P", "Q", "R", "S", "T", "U", "V", "W", "X", "Y", "Z",
   "[", "]", "^", "_",
   "a", "b", "c", "d", "e", "f", "g", "h", "i", "j", "k", "l", "m", "n", "o", "p", "q", "r", "s", "t", "u", "v", "w", "x", "y", "z", "{", "|", "}" >>
Code(c) == CHOOSE i \in 1..Len(Alphabet) : Alphabet[i] = c
RECURSIVE SeqLess(_, _)
SeqLess(s, t) ==
  IF s = <<>> THEN t # <<>>
  ELSE IF t = <<>> THEN FALSE
  ELSE IF Head(s) = Head(t) THEN SeqLess(Tail(s), Tail(t))
  ELSE Code(Head(s)) < Code(Head(t))

(* ---------------- equality: null-safe, representation-blind, structural on lists ---------------- *)
RECURSIVE ValueEq(_, _)
ValueEq(a, b) ==
  IF a.k # b.k THEN FALSE
  ELSE CASE a.k = "null" -> TRUE
         [] a.k = "int"  -> NumEq(a, b)
         [] a.k = "list" -> Len(a.v) = Len(b.v) /\ \A i \in 1..Len(a.v) : ValueEq(a.v[i], b.v[i])
         [] OTHER -> a.v = b.v

(* ---------------- the total order of field values (PartialOrd for FieldValue) ----------------
   null < integers (by numeric value) < floats < strings < booleans < enums < lists (lexicographic) *)
Rank(v) == CASE v.k = "null" -> 0 [] v.k = "int" -> 1 [] v.k = "float" -> 3 [] v.k = "str" -> 4
             [] v.k = "bool" -> 5 [] v.k = "enum" -> 6 [] v.k = "list" -> 7
RECURSIVE TotalLess(_, _)
TotalLess(a, b) ==
  IF Rank(a) # Rank(b) THEN Rank(a) < Rank(b)
  ELSE CASE a.k = "null"  -> FALSE
         [] a.k = "int"   -> NumLess(a, b)
         [] a.k = "float" -> a.v < b.v
         [] a.k = "str"   -> SeqLess(a.v, b.v)
         [] a.k = "enum"  -> SeqLess(a.v, b.v)
         [] a.k = "bool"  -> (~a.v) /\ b.v
         [] a.k = "list"  ->
              LET n == IF Len(a.v) < Len(b.v) THEN Len(a.v) ELSE Len(b.v)
                  d == {i \in 1..n : ~ValueEq(a.v[i], b.v[i])}
              IN IF d = {} THEN Len(a.v) < Len(b.v)
                 ELSE LET i == CHOOSE i \in d : \A j \in d : i <= j IN TotalLess(a.v[i], b.v[i])

(* ---------------- filter operators (language reference: "Filter operators") ---------------- *)
\* ordering comparisons are typed for Int / Float / String operands of equal base type and for lists of those
\* (lexicographic: the order of field values themselves, Type::is_orderable)
OrdLess(a, b) ==
  IF IsNull(a) \/ IsNull(b) THEN FALSE
  ELSE CASE a.k = "int"   -> NumLess(a, b)
         [] a.k = "float" -> a.v < b.v
         [] a.k = "str"   -> SeqLess(a.v, b.v)
         [] a.k = "list"  -> TotalLess(a, b)
OrdLeq(a, b) == OrdLess(a, b) \/ (~IsNull(a) /\ ~IsNull(b) /\ ValueEq(a, b))

IsPrefixOf(p, s) == Len(p) <= Len(s) /\ SubSeq(s, 1, Len(p)) = p
IsSuffixOf(p, s) == Len(p) <= Len(s) /\ SubSeq(s, Len(s) - Len(p) + 1, Len(s)) = p
IsSubstrOf(p, s) == \E i \in 0..(Len(s) - Len(p)) : SubSeq(s, i + 1, i + Len(p)) = p
\* regular expressions: the fragment  ^? literal $?   (enough to pin anchoring and complement)
RegexMatch(s, pat) ==
  LET aStart == pat # <<>> /\ Head(pat) = "^"
      p1 == IF aStart THEN Tail(pat) ELSE pat
      aEnd == p1 # <<>> /\ p1[Len(p1)] = "$"
      lit == IF aEnd THEN SubSeq(p1, 1, Len(p1) - 1) ELSE p1
  IN CASE aStart /\ aEnd -> s = lit
       [] aStart /\ ~aEnd -> IsPrefixOf(lit, s)
       [] ~aStart /\ aEnd -> IsSuffixOf(lit, s)
       [] OTHER -> IsSubstrOf(lit, s)
StrRel(R(_, _), l, r) == IF IsNull(l) \/ IsNull(r) THEN FALSE ELSE R(r.v, l.v)
MemberOf(x, lst) == IF IsNull(lst) THEN FALSE ELSE \E i \in 1..Len(lst.v) : ValueEq(x, lst.v[i])

\* operators that have a negated form, and the ordering operators (which have none: with a null operand both  <  and  >=  are false)
PositiveOps == {"=", "one_of", "contains", "has_prefix", "has_suffix", "has_substring", "regex", "is_null"}
OrderOps == {"<", "<=", ">", ">="}
Negation(op) == CASE op = "=" -> "!=" [] op = "one_of" -> "not_one_of" [] op = "contains" -> "not_contains"
                  [] op = "has_prefix" -> "not_has_prefix" [] op = "has_suffix" -> "not_has_suffix"
                  [] op = "has_substring" -> "not_has_substring" [] op = "regex" -> "not_regex" [] op = "is_null" -> "is_not_null"
AllOps == PositiveOps \cup {Negation(o) : o \in PositiveOps} \cup OrderOps

FilterOp(op, l, r) ==
  CASE op = "="  -> ValueEq(l, r)
    [] op = "!=" -> ~ValueEq(l, r)
    [] op = "<"  -> OrdLess(l, r)
    [] op = "<=" -> OrdLeq(l, r)
    [] op = ">"  -> OrdLess(r, l)
    [] op = ">=" -> OrdLeq(r, l)
    [] op = "one_of"     -> MemberOf(l, r)
    [] op = "not_one_of" -> ~MemberOf(l, r)
    [] op = "contains"     -> MemberOf(r, l)
    [] op = "not_contains" -> ~MemberOf(r, l)
    [] op = "has_prefix"        -> StrRel(IsPrefixOf, l, r)
    [] op = "not_has_prefix"    -> ~StrRel(IsPrefixOf, l, r)
    [] op = "has_suffix"        -> StrRel(IsSuffixOf, l, r)
    [] op = "not_has_suffix"    -> ~StrRel(IsSuffixOf, l, r)
    [] op = "has_substring"     -> StrRel(IsSubstrOf, l, r)
    [] op = "not_has_substring" -> ~StrRel(IsSubstrOf, l, r)
    [] op = "regex"     -> (IF IsNull(l) \/ IsNull(r) THEN FALSE ELSE RegexMatch(l.v, r.v))
    [] op = "not_regex" -> ~(IF IsNull(l) \/ IsNull(r) THEN FALSE ELSE RegexMatch(l.v, r.v))
    [] op = "is_null"     -> IsNull(l)
    [] op = "is_not_null" -> ~IsNull(l)
=============================================================================
