----------------------------- MODULE MC_Values -----------------------------
(***************************************************************************)
(* Bounded abstract value universe (DESIGN 4.4) and the laws of C07 / C08  *)
(* checked exhaustively on the model.  One TLC state per value `a`; the    *)
(* invariants quantify over all b, c of the universe, so every pair and    *)
(* triple is visited.  The same universe is dumped as JSON (DumpUniverse)  *)
(* and becomes the implementation's test cases (binding A).                *)
(***************************************************************************)
EXTENDS Values, SequencesExt, Json, IOUtils, TLC

\* boundary integers as offset-binary limbs
P_MIN == <<0, 0, 0>>                        \* i64::MIN
P_MIN1 == <<0, 0, 1>>                       \* i64::MIN + 1
P_NEG1 == <<32767, 16777215, 16777215>>     \* -1
P_0 == <<32768, 0, 0>>
P_1 == <<32768, 0, 1>>
P_2E31 == <<32768, 128, 0>>                 \* 2^31
P_MAX == <<65535, 16777215, 16777215>>      \* i64::MAX
P_MAX1 == <<65536, 0, 0>>                   \* i64::MAX + 1
P_UMAX1 == <<98303, 16777215, 16777214>>    \* u64::MAX - 1
P_UMAX == <<98303, 16777215, 16777215>>     \* u64::MAX
IntPts == {P_MIN, P_MIN1, P_NEG1, P_0, P_1, P_2E31, P_MAX, P_MAX1, P_UMAX1, P_UMAX}
FitsSigned(p) == p[1] <= 65535
FitsUnsigned(p) == p[1] >= 32768
Ints == {[k |-> "int", r |-> "i", v |-> p] : p \in {q \in IntPts : FitsSigned(q)}}
        \cup {[k |-> "int", r |-> "u", v |-> p] : p \in {q \in IntPts : FitsUnsigned(q)}}
Floats == {[k |-> "float", v |-> n] : n \in {-3, 0, 1, 2}}
Strs == {StrV(<<>>), StrV(<<"a">>), StrV(<<"a", "b">>), StrV(<<"b">>)}
Bools == {BoolV(TRUE), BoolV(FALSE)}
Enums == {[k |-> "enum", v |-> <<"A">>], [k |-> "enum", v |-> <<"B">>]}
Scalars == {Null} \cup Ints \cup Floats \cup Strs \cup Bools \cup Enums

I1 == [k |-> "int", r |-> "i", v |-> P_1]
U1 == [k |-> "int", r |-> "u", v |-> P_1]
ElemSmall == {Null, I1, U1, [k |-> "int", r |-> "u", v |-> P_MAX1], [k |-> "int", r |-> "i", v |-> P_NEG1], StrV(<<"a">>)}
SeqsUpTo2(S) == {<<>>} \cup {<<x>> : x \in S} \cup {<<x, y>> : x \in S, y \in S}
Lists1 == {ListV(s) : s \in SeqsUpTo2(ElemSmall)}
Lists2 == {ListV(s) : s \in SeqsUpTo2({ListV(<<>>), ListV(<<I1>>), ListV(<<U1>>)})}
Universe == Scalars \cup Lists1 \cup Lists2

VARIABLE a
Init == a \in Universe
Next == UNCHANGED a

Leq(x, y) == TotalLess(x, y) \/ ValueEq(x, y)
(* ---------------- C08: equality is an equivalence, order is total and agrees with it ---------------- *)
EqLaws ==
  /\ ValueEq(a, a)
  /\ \A b \in Universe : ValueEq(a, b) = ValueEq(b, a)
  /\ \A b \in Universe : \A c \in Universe : (ValueEq(a, b) /\ ValueEq(b, c)) => ValueEq(a, c)
  /\ \A b \in Ints : (a \in Ints /\ a.v = b.v) => ValueEq(a, b)                    \* representation-blind
OrderLaws ==
  /\ ~TotalLess(a, a)
  /\ \A b \in Universe : (TotalLess(a, b) \/ TotalLess(b, a) \/ ValueEq(a, b))               \* total
  /\ \A b \in Universe : ~(TotalLess(a, b) /\ TotalLess(b, a))                              \* antisymmetric
  /\ \A b \in Universe : ~(TotalLess(a, b) /\ ValueEq(a, b))                                \* agrees with equality
  /\ \A b \in Universe : \A c \in Universe : (TotalLess(a, b) /\ TotalLess(b, c)) => TotalLess(a, c)
  /\ \A b \in Universe : \A c \in Universe : (ValueEq(a, b) /\ TotalLess(b, c)) => TotalLess(a, c)   \* congruence
  /\ \A b \in Ints : a \in Ints => (TotalLess(a, b) = LimbLess(a.v, b.v))                   \* numeric order on integers

(* ---------------- C07: operator laws ---------------- *)
SameKind(x, y) == x.k = y.k
OpLaws ==
  /\ \A b \in Universe :
       /\ \A op \in PositiveOps \ {"is_null", "regex"} :
            (op \in {"has_prefix", "has_suffix", "has_substring"} => (a \in Strs \cup {Null} /\ b \in Strs \cup {Null}))
            /\ (op = "one_of" => b \in Lists1 \cup Lists2 \cup {Null}) /\ (op = "contains" => a \in Lists1 \cup Lists2 \cup {Null})
            => FilterOp(Negation(op), a, b) = ~FilterOp(op, a, b)                           \* exact complement
       /\ FilterOp("is_not_null", a, b) = ~FilterOp("is_null", a, b)
       /\ ((IsNull(a) \/ IsNull(b)) => \A op \in OrderOps : ~FilterOp(op, a, b))               \* ordering with null is false
       /\ (a \in Ints /\ b \in Ints =>
             /\ FilterOp("<", a, b) = LimbLess(a.v, b.v) /\ FilterOp(">", a, b) = LimbLess(b.v, a.v)
             /\ FilterOp("<=", a, b) = ~LimbLess(b.v, a.v) /\ FilterOp(">=", a, b) = ~LimbLess(a.v, b.v)
             /\ FilterOp("=", a, b) = (a.v = b.v))                                           \* numeric, representation-blind
       /\ ((SameKind(a, b) /\ a.k \in {"int", "float", "str"}) =>
             /\ FilterOp("<", a, b) = ~FilterOp(">=", a, b) /\ FilterOp(">", a, b) = ~FilterOp("<=", a, b)      \* partition of non-null pairs
             /\ FilterOp("<=", a, b) = (FilterOp("<", a, b) \/ FilterOp("=", a, b)))
       /\ FilterOp("=", a, b) = FilterOp("=", b, a)
       /\ (b \in Lists1 \cup Lists2 => FilterOp("one_of", a, b) = FilterOp("contains", b, a))
       /\ (a \in Strs /\ b \in Strs =>
             /\ (FilterOp("has_prefix", a, b) => FilterOp("has_substring", a, b)) /\ (FilterOp("has_suffix", a, b) => FilterOp("has_substring", a, b))
             /\ (FilterOp("=", a, b) => FilterOp("has_prefix", a, b) /\ FilterOp("has_suffix", a, b)))

(* ---------------- dump of the universe for binding A ---------------- *)
DumpUniverse == a = Null => JsonSerialize(IOEnv.OUT, [scalars |-> SetToSeq(Scalars), lists1 |-> SetToSeq(Lists1), lists2 |-> SetToSeq(Lists2)])
=============================================================================
