INIT Init
NEXT Next
INVARIANT LatticeLaws
INVARIANT SubtypeLaws
INVARIANT EquivLaws
INVARIANT TextLaws
INVARIANT Dump
CHECK_DEADLOCK FALSE
