----------------------------- MODULE JudgeSchema -----------------------------
(* C19 binding A/C: each schema document of the mutant family, rendered to SDL and given to the real Schema::parse,
   must be accepted exactly when Schema!ValidSchema holds; a panic is reported by the driver. *)
EXTENDS Schema, Json, IOUtils, TLC
Docs == ndJsonDeserialize(IOEnv.INST)      \* [id, doc, outcome : "ok" | "err" | "panic"]
VARIABLES i, ph
Init == i \in 1..Len(Docs) /\ ph = 0
Next == ph = 0 /\ ph' = 1 /\ i' = i
Judged == ph = 0 \/
  LET x == Docs[i]  b == Broken(x.doc)  valid == b = {} IN
  PrintT(<<"VERDICT", x.id, IF valid THEN "valid" ELSE "invalid", ToJson(b)>>)
=============================================================================
