----------------------------- MODULE JudgeStubgen -----------------------------
(* C26: per naming case, what Stubgen.tla predicts (refused / compiles / which clause fails) next to what happened. *)
EXTENDS Stubgen, Json, IOUtils
Cases == ndJsonDeserialize(IOEnv.INST)     \* [id, names : [types, entries]]
VARIABLES i, ph
Init == i \in 1..Len(Cases) /\ ph = 0
Next == ph = 0 /\ ph' = 1 /\ i' = i
Judged == ph = 0 \/
  LET s == Cases[i].names IN
  /\ Assert(AcceptImpliesVariantsDistinct(s), "naming law")
  /\ PrintT(<<"VERDICT", Cases[i].id, IF Refused(s) THEN "refused" ELSE IF Compiles(s) THEN "compiles" ELSE "broken",
             ToJson([accessors |-> AccessorsAgree(s), variants |-> VariantsDistinct(s), entrypoints |-> EntrypointsDistinct(s), keywords |-> NoUnescapedKeyword(s)])>>)
=============================================================================
