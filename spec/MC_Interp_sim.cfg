CONSTANTS
  Cap = 2
  Eager = TRUE
  MaxRequests = 0
INIT Init
NEXT SimNext
VIEW View
INVARIANTS NoPanic TypeOK LentIffInCall Lazy RowsPrefix RowsFinal SemFinal Report
CHECK_DEADLOCK FALSE
