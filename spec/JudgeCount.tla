----------------------------- MODULE JudgeCount -----------------------------
(* C09: for a query whose execution was cut at the row limit, how many rows does the declarative semantics have?  A result that is
   merely large is not a failure to end; a result the semantics says is small, and that still did not end, is. *)
EXTENDS Sem, Json, IOUtils
Insts == ndJsonDeserialize(IOEnv.INST)
Obs == ndJsonDeserialize(IOEnv.OBS)
VARIABLES i, ph
Init == i \in 1..Len(Insts) /\ ph = 0
Next == ph = 0 /\ ph' = 1 /\ i' = i
Judged == ph = 0 \/ PrintT(<<"VERDICT", Insts[i].id, "count", Len(Rows([Insts[i] EXCEPT !.args = Obs[i].args]))>>)
=============================================================================
