---- MODULE MC_Threads ----
EXTENDS Threads
\* two operations per thread: compile (reads the scalar table and the typename field), execute (reads the count type and the typename field)
MCOps == << {"builtin_scalars", "typename_field"}, {"non_null_int", "typename_field"} >>
====
