-------------------------------- MODULE Types --------------------------------
(***************************************************************************)
(* The Trustfall type language (DESIGN 3.1).  A type is                    *)
(*     [base |-> name, mods |-> <<n1, ..., nk>>]                            *)
(* where k-1 is the number of list levels and n_j says whether level j     *)
(* (outermost first, the leaf last) is nullable.  `[Int!]`  is             *)
(* [base |-> "Int", mods |-> <<TRUE, FALSE>>].                              *)
(***************************************************************************)
EXTENDS Values

Ty(b, m) == [base |-> b, mods |-> m]
Depth(t) == Len(t.mods) - 1
IsListTy(t) == Len(t.mods) > 1
Inner(t) == Ty(t.base, Tail(t.mods))
Nullable(t) == t.mods[1]
NoTy == [base |-> "", mods |-> <<>>]                 \* "no common subtype"
IsNoTy(t) == t.mods = <<>>

(* greatest common subtype *)
Intersect(a, b) ==
  IF a.base # b.base \/ Len(a.mods) # Len(b.mods) THEN NoTy
  ELSE Ty(a.base, [j \in 1..Len(a.mods) |-> a.mods[j] /\ b.mods[j]])

(* scalar-only subtyping: Sub(sub, sup) *)
ScalarSubtype(sub, sup) ==
  /\ sub.base = sup.base /\ Len(sub.mods) = Len(sup.mods)
  /\ \A j \in 1..Len(sub.mods) : sub.mods[j] => sup.mods[j]

EqIgnoringNull(a, b) == a.base = b.base /\ Len(a.mods) = Len(b.mods)
Orderable(t) == t.base \in {"Int", "Float", "String"}

KindOfBase(b) == CASE b = "Int" -> "int" [] b = "Float" -> "float" [] b = "String" -> "str" [] b = "Boolean" -> "bool" [] OTHER -> "enum"
RECURSIVE Fits(_, _)
Fits(v, t) ==
  IF IsNull(v) THEN Nullable(t)
  ELSE IF v.k = "list" THEN IsListTy(t) /\ \A i \in 1..Len(v.v) : Fits(v.v[i], Inner(t))
  ELSE ~IsListTy(t) /\ v.k = KindOfBase(t.base)

(* text form: token sequence, e.g. << "[", "Int", "!", "]" >>  for  [Int!]  *)
RECURSIVE Render(_)
Render(t) ==
  LET bang == IF Nullable(t) THEN <<>> ELSE <<"!">> IN
  IF IsListTy(t) THEN <<"[">> \o Render(Inner(t)) \o <<"]">> \o bang ELSE <<t.base>> \o bang
\* parse: strip a trailing "!", then either a bracketed inner type or a name
RECURSIVE ParseTokens(_)
ParseTokens(toks) ==
  LET nn == toks[Len(toks)] = "!"
      body == IF nn THEN SubSeq(toks, 1, Len(toks) - 1) ELSE toks
  IN IF body[1] = "[" THEN LET inner == ParseTokens(SubSeq(body, 2, Len(body) - 1)) IN Ty(inner.base, <<~nn>> \o inner.mods)
     ELSE Ty(body[1], <<~nn>>)

(* ---------------- the universe and the laws checked by TLC (MC_Types) ---------------- *)
Bases == {"Int", "String", "Float", "Node"}
ModsOf(k) == [1..k -> BOOLEAN]
AllTypes(maxDepth) == {Ty(b, m) : b \in Bases, m \in UNION {ModsOf(k) : k \in 1..(maxDepth + 1)}}
=============================================================================
