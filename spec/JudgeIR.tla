------------------------------- MODULE JudgeIR -------------------------------
(***************************************************************************)
(* C11 (DESIGN 6/C11): structural invariants of the compiled query, judged *)
(* on the IR skeleton exported from the real frontend (obs.ir) and against *)
(* the shape the source-level AST predicts (Lower).                        *)
(***************************************************************************)
EXTENDS Lower, Json, IOUtils
Insts == ndJsonDeserialize(IOEnv.INST)
Obs == ndJsonDeserialize(IOEnv.OBS)
VARIABLES i, ph
Init == i \in 1..Len(Insts) /\ ph = 0
Next == ph = 0 /\ ph' = 1 /\ i' = i

SetOf(s) == {s[j] : j \in 1..Len(s)}
CompByRoot(ir, root) == LET k == CHOOSE k \in 1..Len(ir.comps) : ir.comps[k].root = root IN ir.comps[k]
Vids(c) == {c.vertices[k].vid : k \in 1..Len(c.vertices)}
Eids(c) == {c.items[k].eid : k \in 1..Len(c.items)}
Folds(c) == {k \in 1..Len(c.items) : c.items[k].kind = "fold"}
\* the components at or below the one rooted at `root`
RECURSIVE Subtree(_, _)
Subtree(ir, root) == LET c == CompByRoot(ir, root) IN {root} \cup UNION {Subtree(ir, c.items[k].to) : k \in Folds(c)}
SubVids(ir, root) == UNION {Vids(CompByRoot(ir, r)) : r \in Subtree(ir, root)}
SubEids(ir, root) == UNION {Eids(CompByRoot(ir, r)) : r \in Subtree(ir, root)}
Ref(r) == <<r.k, r.vid, r.field, r.eid>>
\* tag references used by the filters of a component (vertex filters and the count filters of its folds)
TagArgs(fs) == {Ref(fs[j].arg) : j \in {j \in 1..Len(fs) : fs[j].arg.k \in {"tag", "cnt"}}}
VertexTagUses(c) == UNION {TagArgs(c.vertices[k].filters) : k \in 1..Len(c.vertices)}
PostTagUses(c) == UNION {TagArgs(c.items[k].post) : k \in Folds(c)}
\* uses inside the subtree rooted at `root` (the post filters of the folds OF a component run in that component)
UsesBelow(ir, root) == UNION {VertexTagUses(CompByRoot(ir, r)) \cup PostTagUses(CompByRoot(ir, r)) : r \in Subtree(ir, root)}
\* IRFold.imported_tags: "tags from the directly-enclosing component whose values are needed inside this fold's component or
\* one of its subcomponents" - a tag from further out is imported by the enclosing fold at that level and inherited by contexts
DefinedIn(c, ref) == IF ref[1] = "tag" THEN ref[2] \in Vids(c) ELSE ref[4] \in Eids(c)

AllVids(ir) == UNION {Vids(ir.comps[k]) : k \in 1..Len(ir.comps)}
AllEids(ir) == UNION {Eids(ir.comps[k]) : k \in 1..Len(ir.comps)}
VarType(ir, n) == LET k == CHOOSE k \in 1..Len(ir.vars) : ir.vars[k][1] = n IN JT(ir.vars[k][2])
HasVar(ir, n) == \E k \in 1..Len(ir.vars) : ir.vars[k][1] = n

\* one named predicate per clause of the property; each returns TRUE or the name of the broken clause is reported
EdgeLeadsToNext(ir) == \A c \in 1..Len(ir.comps) : \A k \in 1..Len(ir.comps[c].items) : ir.comps[c].items[k].to = ir.comps[c].items[k].eid + 1
ExactlyOneComponent(ir) ==
  /\ \A a, b \in 1..Len(ir.comps) : a # b => Vids(ir.comps[a]) \cap Vids(ir.comps[b]) = {} /\ Eids(ir.comps[a]) \cap Eids(ir.comps[b]) = {}
  /\ AllVids(ir) = SetOf(ir.vids) /\ AllEids(ir) = SetOf(ir.eids)
  /\ AllVids(ir) = 1..Cardinality(AllVids(ir)) /\ AllEids(ir) = 1..Cardinality(AllEids(ir))
  /\ \A c \in 1..Len(ir.comps) : Len(ir.comps[c].vertices) = Cardinality(Vids(ir.comps[c])) /\ Len(ir.comps[c].items) = Cardinality(Eids(ir.comps[c]))
FoldsPrecedeContents(ir) ==
  \A c \in 1..Len(ir.comps) : \A k \in Folds(ir.comps[c]) :
     LET F == ir.comps[c].items[k] IN
     /\ \E d \in 1..Len(ir.comps) : ir.comps[d].root = F.to /\ ir.comps[d].parentFold = F.eid
     /\ \A v \in SubVids(ir, F.to) : v >= F.to
     /\ \A e \in SubEids(ir, F.to) : e > F.eid
EdgesGoUp(ir) ==
  /\ \A c \in 1..Len(ir.comps) : \A k \in 1..Len(ir.comps[c].items) :
       LET it == ir.comps[c].items[k] IN
       /\ it.from < it.to /\ it.from \in Vids(ir.comps[c])
       /\ IF it.kind = "fold" THEN it.to \notin Vids(ir.comps[c]) ELSE it.to \in Vids(ir.comps[c])
  /\ \A c \in 1..Len(ir.comps) : ir.comps[c].root \in Vids(ir.comps[c]) /\ \A v \in Vids(ir.comps[c]) : v >= ir.comps[c].root
\* a tag is defined at a vertex (fold) that is resolved before the vertex (fold) using it
TagsResolvedBeforeUse(ir) ==
  \A c \in 1..Len(ir.comps) :
     /\ \A k \in 1..Len(ir.comps[c].vertices) : \A r \in TagArgs(ir.comps[c].vertices[k].filters) :
           LET u == ir.comps[c].vertices[k].vid IN
           IF r[1] = "tag" THEN r[2] \in AllVids(ir) /\ r[2] <= u ELSE r[4] \in AllEids(ir) /\ r[4] + 1 < u
     /\ \A k \in Folds(ir.comps[c]) : \A r \in TagArgs(ir.comps[c].items[k].post) :
           IF r[1] = "tag" THEN r[2] \in AllVids(ir) /\ r[2] <= ir.comps[c].items[k].to ELSE r[4] \in AllEids(ir) /\ r[4] < ir.comps[c].items[k].eid
ImportedExactly(ir) ==
  \A c \in 1..Len(ir.comps) : \A k \in Folds(ir.comps[c]) :
     LET F == ir.comps[c].items[k]
         want == {r \in UsesBelow(ir, F.to) : DefinedIn(ir.comps[c], r)}
         got == {Ref(F.imported[j]) : j \in 1..Len(F.imported)}
     IN want = got
VariablesTyped(ir) ==
  LET Uses(fs) == {j \in 1..Len(fs) : fs[j].arg.k = "var"}
      OK(f) == HasVar(ir, f.arg.n) /\ ScalarSubtype(VarType(ir, f.arg.n), JT(f.arg.type))
  IN /\ \A c \in 1..Len(ir.comps) :
          /\ \A k \in 1..Len(ir.comps[c].vertices) : \A j \in Uses(ir.comps[c].vertices[k].filters) : OK(ir.comps[c].vertices[k].filters[j])
          /\ \A k \in Folds(ir.comps[c]) : \A j \in Uses(ir.comps[c].items[k].post) : OK(ir.comps[c].items[k].post[j])
     /\ \A v \in 1..Len(ir.vars) :
          \E c \in 1..Len(ir.comps) :
             \/ \E k \in 1..Len(ir.comps[c].vertices) : \E j \in Uses(ir.comps[c].vertices[k].filters) : ir.comps[c].vertices[k].filters[j].arg.n = ir.vars[v][1]
             \/ \E k \in Folds(ir.comps[c]) : \E j \in Uses(ir.comps[c].items[k].post) : ir.comps[c].items[k].post[j].arg.n = ir.vars[v][1]

\* the recorded type of every variable is the one the SOURCE query implies (Query!ImpliedVarTypes: greatest common subtype of its uses)
VarsAsImplied(inst, ir) ==
  LET imp == ImpliedVarTypes(inst) IN
  /\ {ir.vars[k][1] : k \in 1..Len(ir.vars)} = DOMAIN imp
  /\ \A k \in 1..Len(ir.vars) : JT(ir.vars[k][2]) = imp[ir.vars[k][1]]

(* ---------------- the shape the source-level query predicts: scope number k (pre-order) is vertex k ---------------- *)
RECURSIVE Flat(_, _, _)
Flat(inst, node, ty) ==
  << [node |-> node, ty |-> ty] >> \o
  FlatMap(node.edges, LAMBDA e : Flat(inst, e, IF e.coerce # "" THEN e.coerce ELSE TypeRec(inst, ty).edges[e.edge].to))
VertexByVid(ir, v) ==
  LET c == CHOOSE c \in 1..Len(ir.comps) : v \in Vids(ir.comps[c])
      k == CHOOSE k \in 1..Len(ir.comps[c].vertices) : ir.comps[c].vertices[k].vid = v
  IN ir.comps[c].vertices[k]
ItemByEid(ir, e) ==
  LET c == CHOOSE c \in 1..Len(ir.comps) : e \in Eids(ir.comps[c])
      k == CHOOSE k \in 1..Len(ir.comps[c].items) : ir.comps[c].items[k].eid = e
  IN ir.comps[c].items[k]
MatchesSource(inst, ir) ==
  LET flat == Flat(inst, inst.q, RootType(inst)) IN
  /\ Cardinality(AllVids(ir)) = Len(flat)
  /\ ir.rootName = inst.q.edge
  /\ \A v \in 1..Len(flat) : v \in AllVids(ir) /\ VertexByVid(ir, v).type = flat[v].ty
  /\ \A v \in 2..Len(flat) :
       LET it == ItemByEid(ir, v - 1)  n == flat[v].node IN
       /\ it.name = n.edge
       /\ (it.kind = "fold") = (n.mode = "fold")
       /\ it.optional = (n.mode = "optional")
       /\ it.depth = (IF n.mode = "recurse" THEN n.depth ELSE 0)

\* the whole compiled query, component by component, is what Lower.tla derives from the source (only evaluated when the shape matches)
LowerAgrees(inst, ir) == ~MatchesSource(inst, ir) \/ Exported(ir) = Lowered(inst)
Clauses(inst, ir) ==
  << <<"edge i leads to vertex i+1", EdgeLeadsToNext(ir)>>, <<"every vertex and edge in exactly one component", ExactlyOneComponent(ir)>>,
     <<"folds precede their contents", FoldsPrecedeContents(ir)>>, <<"edges go from lower to higher vertex ids", EdgesGoUp(ir)>>,
     <<"tags are defined at vertices resolved before their uses", TagsResolvedBeforeUse(ir)>>,
     <<"imported tags are exactly those used inside a fold from outside it (from its enclosing component)", ImportedExactly(ir)>>,
     <<"every variable use is recorded with a compatible type", VariablesTyped(ir) /\ VarsAsImplied(inst, ir)>>,
     <<"the compiled shape is the one the source query predicts", MatchesSource(inst, ir)>>,
     <<"the compiled query is the one the source query denotes (Lower.tla)", LowerAgrees(inst, ir)>> >>
Judged == ph = 0 \/
  LET inst == Insts[i]  ir == Obs[i].ir  cl == Clauses(inst, ir)
      bad == {k \in 1..Len(cl) : ~cl[k][2]}
  IN IF bad = {} THEN PrintT(<<"VERDICT", inst.id, "C11.ok", Cardinality(AllVids(ir))>>)
     ELSE PrintT(<<"VERDICT", inst.id, "C11.bad", ToJson([k \in 1..Len(cl) |-> IF cl[k][2] THEN "" ELSE cl[k][1]])>>)
=============================================================================
