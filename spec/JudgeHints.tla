----------------------------- MODULE JudgeHints -----------------------------
(***************************************************************************)
(* C04, per hint and independent of the dataset: a candidate the engine    *)
(* reports for property p of vertex v from STATICALLY known filters must   *)
(* contain every value that satisfies all the filters on p at v whose      *)
(* argument is a query variable (or that take no argument).                *)
(*   Sound(h) == \A x \in Probe : (\A f \in StaticFilters : f(x)) =>       *)
(*                                 Candidates!Contains(h.cand, x)          *)
(* Probe = a pool of values of the property's type (negative, zero and     *)
(* positive integers, strings around the arguments, floats, booleans,      *)
(* null), the values the property takes in the graph, the arguments and    *)
(* their list elements - restricted to values that FIT the property type.  *)
(* Hints may be imprecise (Contains more): only exclusion is a violation.  *)
(***************************************************************************)
EXTENDS Candidates, Types, Json, IOUtils, TLC
Insts == ndJsonDeserialize(IOEnv.INST)      \* [id, g]
Obs == ndJsonDeserialize(IOEnv.OBS)         \* [id, ir, args, hints: <<[vid, prop, cand]>>]
VARIABLES i, ph
Init == i \in 1..Len(Insts) /\ ph = 0
Next == ph = 0 /\ ph' = 1 /\ i' = i

SetOf(s) == {s[j] : j \in 1..Len(s)}
RegexOps == {"regex", "not_regex"}
VertexOf(ir, vid) ==
  LET c == CHOOSE c \in 1..Len(ir.comps) : \E k \in 1..Len(ir.comps[c].vertices) : ir.comps[c].vertices[k].vid = vid
      k == CHOOSE k \in 1..Len(ir.comps[c].vertices) : ir.comps[c].vertices[k].vid = vid
  IN ir.comps[c].vertices[k]
StaticFilters(v, prop) == SelectSeq(v.filters, LAMBDA f : f.field = prop /\ f.arg.k \in {"var", "none"})
ArgOf(o, f) == IF f.arg.k = "var" THEN o.args[f.arg.n] ELSE Null
Pool ==
  {Null} \cup {IntV(n) : n \in -3..6} \cup {[k |-> "float", v |-> n] : n \in -2..8} \cup {BoolV(TRUE), BoolV(FALSE)}
  \cup {StrV(<<>>), StrV(<<"a">>), StrV(<<"a", "a">>), StrV(<<"a", "b">>), StrV(<<"a", "b", "c">>), StrV(<<"b">>), StrV(<<"b", "a">>), StrV(<<"c">>)}
Elems(v) == IF v.k = "list" THEN SetOf(v.v) ELSE {}
Probe(inst, o, fs, prop, ty) ==
  LET graph == {inst.g.verts[k].props[prop] : k \in {k \in 1..Len(inst.g.verts) : prop \in DOMAIN inst.g.verts[k].props}}
      args == {ArgOf(o, fs[j]) : j \in 1..Len(fs)}
      all == Pool \cup graph \cup args \cup UNION {Elems(a) : a \in args} \cup {ListV(<<x>>) : x \in graph \cup args}
  IN {x \in all : Fits(x, ty)}
Unsound(inst, o, h) ==
  LET v == VertexOf(o.ir, h.vid)
      fs == StaticFilters(v, h.prop)
  IN IF fs = <<>> \/ \E j \in 1..Len(fs) : fs[j].op \in RegexOps THEN {}
     ELSE LET ty == Ty(fs[1].ltype.base, fs[1].ltype.mods) IN
          {x \in Probe(inst, o, fs, h.prop, ty) : (\A j \in 1..Len(fs) : FilterOp(fs[j].op, x, ArgOf(o, fs[j]))) /\ ~Contains(h.cand, x)}
Judged == ph = 0 \/
  LET inst == Insts[i]  o == Obs[i]
      bad == {j \in 1..Len(o.hints) : Unsound(inst, o, o.hints[j]) # {}}
  IN IF bad = {} THEN PrintT(<<"VERDICT", inst.id, "hint.ok", Len(o.hints)>>)
     ELSE LET j == CHOOSE j \in bad : TRUE IN
          PrintT(<<"VERDICT", inst.id, "hint.unsound", ToJson([hint |-> o.hints[j], excluded |-> CHOOSE x \in Unsound(inst, o, o.hints[j]) : TRUE])>>)
=============================================================================
