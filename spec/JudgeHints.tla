----------------------------- MODULE JudgeHints -----------------------------
(***************************************************************************)
(* C04, per hint and independent of the dataset: a candidate the engine    *)
(* reports for property p of vertex v from STATICALLY known filters must   *)
(* contain every value that satisfies all the filters on p at v whose      *)
(* argument is a query variable (or that take no argument).                *)
(*   Sound(h) == \A x \in Probe : (\A f \in StaticFilters : f(x)) =>       *)
(*                                 Candidates!Contains(h.cand, x)          *)
(* Probe = a pool of values of the property's type (negative, zero and     *)
(* positive integers, strings around the arguments, floats, booleans,      *)
(* null), the values the property takes in the graph, the arguments and    *)
(* their list elements - restricted to values that FIT the property type.  *)
(* Hints may be imprecise (Contains more): only exclusion is a violation.  *)
(***************************************************************************)
EXTENDS Candidates, Types, Json, IOUtils, TLC
Insts == ndJsonDeserialize(IOEnv.INST)      \* [id, g, schema]
Obs == ndJsonDeserialize(IOEnv.OBS)         \* [id, ir, args, hints: <<[kind, vid, prop, cand, src, eid]>>]
VARIABLES i, ph
Init == i \in 1..Len(Insts) /\ ph = 0
Next == ph = 0 /\ ph' = 1 /\ i' = i

SetOf(s) == {s[j] : j \in 1..Len(s)}
RegexOps == {"regex", "not_regex"}
VertexOf(ir, vid) ==
  LET c == CHOOSE c \in 1..Len(ir.comps) : \E k \in 1..Len(ir.comps[c].vertices) : ir.comps[c].vertices[k].vid = vid
      k == CHOOSE k \in 1..Len(ir.comps[c].vertices) : ir.comps[c].vertices[k].vid = vid
  IN ir.comps[c].vertices[k]
StaticFilters(v, prop) == SelectSeq(v.filters, LAMBDA f : f.field = prop /\ f.arg.k \in {"var", "none"})
ArgOf(o, f) == IF f.arg.k = "var" THEN o.args[f.arg.n] ELSE Null
Pool ==
  {Null} \cup {IntV(n) : n \in -3..6} \cup {[k |-> "float", v |-> n] : n \in -2..8} \cup {BoolV(TRUE), BoolV(FALSE)}
  \cup {StrV(<<>>), StrV(<<"a">>), StrV(<<"a", "a">>), StrV(<<"a", "b">>), StrV(<<"a", "b", "c">>), StrV(<<"b">>), StrV(<<"b", "a">>), StrV(<<"c">>)}
Elems(v) == IF v.k = "list" THEN SetOf(v.v) ELSE {}
Probe(inst, o, fs, prop, ty) ==
  LET graph == {inst.g.verts[k].props[prop] : k \in {k \in 1..Len(inst.g.verts) : prop \in DOMAIN inst.g.verts[k].props}}
      args == {ArgOf(o, fs[j]) : j \in 1..Len(fs)}
      all == Pool \cup graph \cup args \cup UNION {Elems(a) : a \in args} \cup {ListV(<<x>>) : x \in graph \cup args}
  IN {x \in all : Fits(x, ty)}
Unsound(inst, o, h) ==
  LET v == VertexOf(o.ir, h.vid)
      fs == StaticFilters(v, h.prop)
  IN IF fs = <<>> \/ \E j \in 1..Len(fs) : fs[j].op \in RegexOps THEN {}
     ELSE LET ty == Ty(fs[1].ltype.base, fs[1].ltype.mods) IN
          {x \in Probe(inst, o, fs, h.prop, ty) : (\A j \in 1..Len(fs) : FilterOp(fs[j].op, x, ArgOf(o, fs[j]))) /\ ~Contains(h.cand, x)}
(* dynamic (tag-resolved) candidates: judged when every tag the filters on that property use is defined on the edge's SOURCE vertex, whose
   graph vertex the harness logs (src) - the tag values are then known and the satisfying set is exact *)
ItemByEid(ir, e) ==
  LET c == CHOOSE c \in 1..Len(ir.comps) : \E k \in 1..Len(ir.comps[c].items) : ir.comps[c].items[k].eid = e
      k == CHOOSE k \in 1..Len(ir.comps[c].items) : ir.comps[c].items[k].eid = e
  IN ir.comps[c].items[k]
TagValue(inst, src, field) ==
  IF field = "__typename" THEN StrV(inst.schema.types[inst.g.verts[src].ty].chars) ELSE inst.g.verts[src].props[field]
DynArg(inst, o, h, f) == IF f.arg.k = "tag" THEN TagValue(inst, h.src, f.arg.field) ELSE ArgOf(o, f)
UnsoundDyn(inst, o, h) ==
  LET v == VertexOf(o.ir, h.vid)
      from == ItemByEid(o.ir, h.eid).from
      fs == SelectSeq(v.filters, LAMBDA f : f.field = h.prop)
      judgeable == /\ h.src > 0 /\ fs # <<>>
                   /\ \A j \in 1..Len(fs) : fs[j].op \notin RegexOps /\ (fs[j].arg.k \in {"var", "none"} \/ (fs[j].arg.k = "tag" /\ fs[j].arg.vid = from))
  IN IF ~judgeable THEN {}
     ELSE LET ty == Ty(fs[1].ltype.base, fs[1].ltype.mods)
              args == {DynArg(inst, o, h, fs[j]) : j \in 1..Len(fs)}
              all == Probe(inst, o, <<>>, h.prop, ty) \cup {x \in args \cup UNION {Elems(a) : a \in args} : Fits(x, ty)}
          IN {x \in all : (\A j \in 1..Len(fs) : FilterOp(fs[j].op, x, DynArg(inst, o, h, fs[j]))) /\ ~Contains(h.cand, x)}
(* mandatory edges: an edge the engine reports as mandatory for vertex vid must be one without which no row can exist - a plain edge
   (not @optional, not @recurse, whose depth 0 is the vertex itself), or a @fold whose statically known count filters reject the count 0 *)
ItemsFrom(ir, vid, name) ==
  UNION {{ir.comps[c].items[k] : k \in {k \in 1..Len(ir.comps[c].items) : ir.comps[c].items[k].from = vid /\ ir.comps[c].items[k].name = name}} : c \in 1..Len(ir.comps)}
ForcesElement(o, it) ==
  \E j \in 1..Len(it.post) : it.post[j].arg.k = "var" /\ ~FilterOp(it.post[j].op, IntV(0), o.args[it.post[j].arg.n])
TrulyMandatory(o, it) == IF it.kind = "fold" THEN ForcesElement(o, it) ELSE ~it.optional /\ it.depth = 0
UnsoundMandatory(o, h) == ~\E it \in ItemsFrom(o.ir, h.vid, h.edge) : TrulyMandatory(o, it)
Judged == ph = 0 \/
  LET inst == Insts[i]  o == Obs[i]
      U(h) == CASE h.kind = "static" -> Unsound(inst, o, h)
                [] h.kind = "dynamic" -> UnsoundDyn(inst, o, h)
                [] OTHER -> IF UnsoundMandatory(o, h) THEN {Null} ELSE {}
      bad == {j \in 1..Len(o.hints) : U(o.hints[j]) # {}}
  IN IF bad = {} THEN PrintT(<<"VERDICT", inst.id, "hint.ok", Len(o.hints)>>)
     ELSE LET j == CHOOSE j \in bad : TRUE IN
          PrintT(<<"VERDICT", inst.id, "hint.unsound", ToJson([hint |-> o.hints[j], excluded |-> CHOOSE x \in U(o.hints[j]) : TRUE])>>)
=============================================================================
