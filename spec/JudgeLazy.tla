------------------------------ MODULE JudgeLazy ------------------------------
(***************************************************************************)
(* C03 binding C.  For the adapter that does not read ahead, obs.pulls[k]  *)
(* is the number of starting vertices pulled when the k-th row came out.   *)
(* It must not exceed J(k), the position in the start list of the start    *)
(* vertex that contributes that row according to Sem!RowsFrom (if several  *)
(* start vertices could have produced an equal row the largest position is *)
(* used, so the bound can only be too lenient, never a false alarm).       *)
(* Nothing may be pulled before the first row is requested, and nothing is *)
(* accessed after the result iterator is dropped at any prefix.            *)
(***************************************************************************)
EXTENDS Sem, Json, IOUtils
Insts == ndJsonDeserialize(IOEnv.INST)
Obs == ndJsonDeserialize(IOEnv.OBS)
VARIABLES i, ph
Init == i \in 1..Len(Insts) /\ ph = 0
Next == ph = 0 /\ ph' = 1 /\ i' = i
Judged == ph = 0 \/
  LET o == Obs[i]  inst == [Insts[i] EXCEPT !.args = o.args]  id == inst.id
      starts == Starts(inst)
      \* `<<>> \o f` forces TLC to evaluate the function once (a lazily evaluated [x \in S |-> e] is re-evaluated at every application)
      from == <<>> \o [j \in 1..Len(starts) |-> RowsFrom(inst, starts[j])]
      Cands(r) == {j \in 1..Len(starts) : \E x \in 1..Len(from[j]) : RowEq(from[j][x], r)}
      JOf(r) == LET c == Cands(r) IN IF c = {} THEN 0 ELSE CHOOSE j \in c : \A j2 \in c : j2 <= j
      Js == <<>> \o [k \in 1..Len(o.rows) |-> JOf(o.rows[k])]
      late == {k \in 1..Len(o.rows) : Js[k] > 0 /\ o.pulls[k] > Js[k]}
      unknown == {k \in 1..Len(o.rows) : Js[k] = 0}
      baddrop == {d \in 1..Len(o.drops) : o.drops[d][2] # o.drops[d][3]}
  IN /\ IF o.before[1] # 0 \/ o.before[2] # 0 THEN PrintT(<<"VERDICT", id, "C03.eager", ToJson(o.before)>>) ELSE TRUE
     /\ IF late # {} THEN LET k == CHOOSE k \in late : TRUE IN PrintT(<<"VERDICT", id, "C03.late", ToJson([row |-> k, pulled |-> o.pulls[k], allowed |-> Js[k], n |-> Cardinality(late)])>>) ELSE TRUE
     /\ IF baddrop # {} THEN LET d == CHOOSE d \in baddrop : TRUE IN PrintT(<<"VERDICT", id, "C03.afterdrop", ToJson(o.drops[d])>>) ELSE TRUE
     /\ PrintT(<<"VERDICT", id, "lazy.done", ToJson([rows |-> Len(o.rows), unexplained |-> Cardinality(unknown), starts |-> Len(starts)])>>)
=============================================================================
