"""Per-property checks. Each returns a vlib.Result; TLC judges, this code classifies and counts."""
import json, os, re, subprocess, sys, time
from vlib import *
import lib as G
import universe

# ------------------------------------------------------------------ structural predicates on instances (for known findings)
def scopes(q, under_opt=False, in_fold=False, path=()):
    yield q, under_opt, in_fold, path
    for k, e in enumerate(q["edges"]):
        yield from scopes(e, under_opt or e["mode"] == "optional", in_fold or e["mode"] == "fold", path + (k,))

def tag_uses(node):
    out = []
    for p in node["props"]:
        for f in p["filters"]:
            if f["arg"]["k"] == "tag": out.append(f["arg"]["n"])
    if "count" in node:
        pass
    for e in node["edges"]:
        out += tag_uses(e)
        if "count" in e:
            for f in e["count"]["filters"]:
                if f["arg"]["k"] == "tag": out.append(f["arg"]["n"])
    return out

def tags_defined(node):
    out = []
    for p in node["props"]: out += [t["name"] or (p["alias"] or p["name"]) for t in p["tags"]]
    for e in node["edges"]:
        if "count" in e: out += [t["name"] for t in e["count"]["tags"]]
        out += tags_defined(e)
    return out

def inst_tags(inst):
    tags = set()
    q = inst["q"]; args = inst.get("args", {})
    if "mode" not in q: return tags          # raw documents (C10 / C14 families) carry no AST
    for node, under_opt, in_fold, path in scopes(q):
        if node["mode"] == "fold" and "count" in node and node["count"]["filters"] and under_opt:
            tags.add("fold_count_filter_under_optional")
        if node["mode"] == "fold":
            inner_defs = set(tags_defined(node))
            uses = [t for t in tag_uses(node) if t not in inner_defs]
            if len(uses) != len(set(uses)): tags.add("same_outer_tag_twice_in_fold")
        for p in node["props"]:
            for f in p["filters"]:
                if f["op"] in ("regex", "not_regex") and f["arg"]["k"] == "var":
                    v = args.get(f["arg"]["n"])
                    if v and v["k"] == "str":
                        try: re.compile("".join(v["v"]))
                        except re.error: tags.add("invalid_regex_argument")
                if f["op"] in ("<", "<=", ">", ">="):
                    pty = None
                    for tn, t in inst["schema"]["types"].items():
                        if p["name"] in t["props"]: pty = t["props"][p["name"]]
                    if pty and len(pty["mods"]) > 1: tags.add("ordering_filter_on_list")
    return tags

# ------------------------------------------------------------------ shared semantic pipeline
MAX_JUDGED_ROWS = 250
def run_semantic(res, insts, modes, wd, seed, want_pruned=False):
    """observe with the real engine, then judge with TLC (JudgeSem). Returns (obs list, verdicts: id -> {cls: detail})."""
    t0 = time.time()
    obs = observe(insts, wd, modes, seed)
    res.notes["engine_s"] = round(time.time() - t0, 1)
    ji, jo = [], []
    for inst, o in zip(insts, obs):
        if o["compile"]["t"] != "ok": continue
        if o.get("exec", {}).get("t") == "ok" and len(o["exec"]["rows"]) > MAX_JUDGED_ROWS:
            o["exec"] = {"t": "manyrows", "n": len(o["exec"]["rows"])}      # bag comparison in TLC is quadratic; counted as skipped
        rec = {"id": o["id"], "t": o.get("exec", {}).get("t", "none"), "args": o.get("args", {}), "rows": o.get("exec", {}).get("rows", []),
               "declared": o.get("ir", {}).get("declared", [])}
        if want_pruned and o.get("prune", {}).get("t") == "ok": rec["pruned"] = o["prune"]["rows"]
        ji.append(inst); jo.append(rec)
    verdicts = {}
    if ji:
        # shard the judge over a few JVMs (JSON parsing is single-threaded)
        nsh = max(1, min(4, len(ji) // 1500))
        import concurrent.futures as cf
        def one(s):
            pi, po = os.path.join(wd, f"judge.inst.{s}.ndjson"), os.path.join(wd, f"judge.obs.{s}.ndjson")
            write_ndjson(pi, ji[s::nsh]); write_ndjson(po, jo[s::nsh])
            return tlc("JudgeSem", "JudgeSem.cfg", {"INST": pi, "OBS": po}, wd, workers=max(2, NCPU // nsh), timeout=3000)
        with cf.ThreadPoolExecutor(nsh) as ex:
            for r in ex.map(one, range(nsh)):
                res.add_tlc(r)
                vs = parse_verdicts(r["out"])
                if not vs and "VERDICT" not in r["out"]: raise ToolError("JudgeSem produced no verdicts:\n" + r["out"][-3000:])
                for iid, cls, rest in vs: verdicts.setdefault(iid, {})[cls] = rest
        missing = [i["id"] for i in ji if i["id"] not in verdicts]
        if missing: raise ToolError(f"JudgeSem: no verdict for instances {missing[:10]}")
    res.notes["judge_s"] = round(time.time() - t0 - res.notes["engine_s"], 1)
    return obs, verdicts

def count_universe(res, insts, obs, verdicts, rule_extra=""):
    seen = set(); nontrivial = 0; skipped = {}
    for inst, o in zip(insts, obs):
        if o["compile"]["t"] != "ok":
            skipped["frontend_" + o["compile"]["t"]] = skipped.get("frontend_" + o["compile"]["t"], 0) + 1; continue
        if o.get("exec", {}).get("t") != "ok":
            k = "exec_" + o.get("exec", {}).get("t", "none"); skipped[k] = skipped.get(k, 0) + 1; continue
        k = inst_key(inst)
        if k in seen: continue
        seen.add(k)
        if o["exec"]["rows"]: nontrivial += 1
    res.cov["evaluations"] += len(insts)
    res.cov["distinct_nontrivial"] += nontrivial
    res.cov["rule"] = ("instances = (schema, graph, source-level query, arguments) from gen/universe.py (seeded random over VS1/VS2/VS3 plus systematic decoration classes); "
                       "distinct by (query text, graph, arguments); non-trivial = accepted by the real frontend and argument validation and the real engine returns at least one row. " + rule_extra)
    res.notes["skipped_by_reason"] = skipped
    res.notes["distinct_instances"] = len(seen)

def replay_case(inst, o=None, **kw):
    d = {"instance": inst}
    if o is not None: d["observed"] = {k: v for k, v in o.items() if k in ("compile", "exec", "args")}
    d.update(kw)
    return d

# ------------------------------------------------------------------ C01
def check_C01(tier, seed):
    res = Result("C01", tier, seed, "model_checking")
    wd = workdir("C01")
    insts = universe.semantic_universe(tier, seed)
    obs, verdicts = run_semantic(res, insts, "ir", wd, seed)
    count_universe(res, insts, obs, verdicts)
    for inst, o in zip(insts, obs):
        v = verdicts.get(inst["id"], {})
        if "C01.mismatch" in v:
            res.violation(f"rows differ from the declarative semantics: query {inst['text']!r}", text="sem-mismatch", tags=inst_tags(inst),
                          replay=replay_case(inst, o, expected_rows=json.loads(tla_unquote(v["C01.mismatch"]))))
        elif "C01.ok" in v and o["exec"]["rows"]:
            res.sample(brief(inst, {"rows": len(o["exec"]["rows"])}), cap=4)
    res.assumptions += ["Sem.tla states spec.md / the language reference correctly", "gen/ renders the AST to GraphQL faithfully", "GraphAdapter honours the adapter contract"]
    return res

# ------------------------------------------------------------------ C13
def check_C13(tier, seed):
    res = Result("C13", tier, seed, "model_checking")
    wd = workdir("C13")
    insts = universe.semantic_universe(tier, seed + 100)
    obs, verdicts = run_semantic(res, insts, "ir", wd, seed)
    count_universe(res, insts, obs, verdicts)
    for inst, o in zip(insts, obs):
        v = verdicts.get(inst["id"], {})
        if "C13.baddecl" in v:
            res.violation(f"declared output types differ from the language's: query {inst['text']!r}", text="baddecl " + tla_unquote(v["C13.baddecl"])[:400], tags=inst_tags(inst), replay=replay_case(inst, o, judge=tla_unquote(v["C13.baddecl"])))
        elif "C13.badrow" in v:
            res.violation(f"a row does not carry exactly the declared, well-typed outputs: query {inst['text']!r}", text="badrow", tags=inst_tags(inst), replay=replay_case(inst, o, declared=tla_unquote(v["C13.badrow"])))
        elif "C13.ok" in v and o["exec"]["rows"]:
            res.sample({"query": inst["text"], "declared": {d[0]: d[1]["text"] for d in o["ir"]["declared"]}, "rows": len(o["exec"]["rows"])}, cap=4)
        elif o.get("compile", {}).get("t") == "ok" and o.get("exec", {}).get("t") == "panic" and "ir" in o:
            # the harness is a debug build: the engine's own assertion that a row's keys are the declared output names fires before a malformed
            # row can be observed. That assertion failing IS this property failing (left = the declared names, right = the row's keys).
            m = re.search(r"left: \{([^}]*)\}\s*right: \{([^}]*)\}", o["exec"]["err"])
            if m:
                left = set(re.findall(r'"([^"]*)"', m.group(1))); right = set(re.findall(r'"([^"]*)"', m.group(2)))
                if left == {d[0] for d in o["ir"]["declared"]} and right != left:
                    res.violation(f"a row does not carry exactly the declared outputs (the engine's own debug assertion fired: row keys {sorted(right)}, declared {sorted(left)}): query {inst['text']!r}",
                                  text="badrow-keys", tags=inst_tags(inst), replay=replay_case(inst, o))
    return res

# ------------------------------------------------------------------ C09
def check_C09(tier, seed):
    res = Result("C09", tier, seed, "exploration")
    wd = workdir("C09")
    insts = universe.semantic_universe(tier, seed + 200, stress=True)
    # near-valid queries (one or two targeted mutations of a valid one): whatever the frontend still accepts must execute without panicking
    import systematic, copy
    fam = systematic.sharedvar_instances(tier, seed)      # one variable at two sites; also with a null element / null value where the loosest use would allow one
    for i in list(fam):
        j = copy.deepcopy(i); v = j["args"]["v"]
        j["args"]["v"] = G.L([G.I(2), G.NULL]) if v["k"] == "list" else G.NULL
        fam.append(j)
    insts = universe.renumber(insts + fam + universe.mutated_universe(tier, seed + 200))
    obs = observe(insts, wd, "ir,batch:2,prune", seed)
    n_exec = 0; seen = set(); nontrivial = 0; toolong = []
    for inst, o in zip(insts, obs):
        if o["compile"]["t"] != "ok": continue
        ex = o.get("exec", {})
        if ex.get("t") == "argerr": continue
        n_exec += 1
        k = inst_key(inst)
        if k not in seen:
            seen.add(k)
            if ex.get("t") == "ok" and ex["rows"]: nontrivial += 1
        tags = inst_tags(inst)
        if ex.get("t") == "panic":
            res.violation(f"engine panicked: {ex['err'][:200]} on query {inst['text']!r}", text=ex["err"], tags=tags, replay=replay_case(inst, o))
        elif ex.get("t") == "toolong":
            toolong.append((inst, o, tags))
        elif ex.get("t") == "ok":
            for b in o.get("batch", {}).get("bad", []):
                if b["what"] == "panic":
                    res.violation(f"engine panicked under batching policy {b['policy']}: {b['err'][:200]}", text=b["err"], tags=tags, replay=replay_case(inst, o, policy=b["policy"]))
            pr = o.get("prune", {})
            if pr.get("t") == "panic":
                res.violation(f"engine/hints panicked with a hint-consuming adapter: {pr['err'][:200]} on query {inst['text']!r}", text=pr["err"], tags=tags | {"hint_consuming_adapter"}, replay=replay_case(inst, o, adapter="pruning"))
            if ex["rows"]: res.sample(brief(inst, {"rows": len(ex["rows"])}), cap=3)
    # executions cut at the row limit: a result that the declarative semantics says is that large is not a failure to end
    if toolong:
        from props_engine import judge
        cv = judge(res, "JudgeCount", [{k: i[k] for k in ("id", "schema", "g", "q", "args")} for i, _, _ in toolong], [{"id": i["id"], "args": o.get("args", {})} for i, o, _ in toolong], wd, "count")
        for inst, o, tags in toolong:
            n = int(cv[inst["id"]]["count"])
            if n <= 5000:
                res.violation(f"engine did not end within 5000 rows although the query has {n} rows: {inst['text']!r}", text="nontermination", tags=tags, replay=replay_case(inst, o))
        res.notes["large_results_not_judged"] = sum(1 for inst, _, _ in toolong if int(cv[inst["id"]]["count"]) > 5000)
    res.cov["evaluations"] = n_exec
    res.cov["distinct_nontrivial"] = nontrivial
    res.cov["rule"] = ("every instance of the semantic universe (stress variant: non-regex strings as regex arguments, count filter arguments -1/0/big, repeated tag uses) and of the mutated universe (gen/badq.py) that the real frontend "
                       "and argument validation accept, executed under catch_unwind with the plain, two batching and the hint-consuming adapter; distinct by (query, graph, args); non-trivial = returns at least one row")
    res.assumptions += ["GraphAdapter and its wrappers honour the adapter contract (checked by check_adapter_invariants in C25's run)"]
    return res

def build_failure(prop, tier, seed, err):
    """The harness shares Arc<Schema> / Arc<IndexedQuery> across threads (threadsx.rs); if it no longer compiles because they stopped being
    Send + Sync, that IS the C24 violation."""
    import props_misc
    if prop == "C24" and props_misc.threads_build_failure(err):
        res = Result("C24", tier, seed, "exploration")
        res.cov.update({"evaluations": 1, "distinct_nontrivial": 2, "rule": "the harness must compile: it requires Schema, IndexedQuery, IRQuery, Type, FieldValue: Send + Sync", "samples": [err[-600:]]})
        res.violation("schemas / compiled queries are no longer Send + Sync: the thread-sharing harness does not compile", text=err[-1500:], replay={"compiler_output": err[-3000:]})
        return finish(res)
    return None

def replay(path):
    d = json.load(open(path))
    print(json.dumps({k: d[k] for k in ("property", "what", "tags")}, indent=1))
    inst = d["case"].get("instance")
    if inst:
        wd = workdir("replay")
        ok, err, _ = build_harness()
        if not ok: print(err); return 2
        o = observe([inst], wd, "ir,batch:4,prune,calls,pulls,tap", 1, shards=1)[0]
        print("query:\n" + inst["text"]); print("args:", {k: G.pretty(v) for k, v in inst.get("args", {}).items()})
        print("observed now:", json.dumps({k: o.get(k) for k in ("compile", "exec")})[:3000])
    return 0

from props_pure import *
from props_algebra import *
from props_engine import *
from props_sem import *
from props_schema import *
from props_misc import *
