"""Engine-level properties decided on the semantic universe with adapter wrappers:
C02 batching independence, C03 laziness, C04 hint pruning, C05 required properties, C14 determinism,
C15 trace replay, C21 adapter contract (caller side)."""
import copy, hashlib, json, os, subprocess, time
from vlib import *
import lib as G
import universe
import props

def judge(res, module, insts, obs_records, wd, tag):
    """Runs a one-state-per-instance TLC judge; returns id -> {cls: detail}."""
    # sharded over a few JVMs of bounded size (JSON parsing is single-threaded and a large universe does not fit one heap comfortably)
    nsh = max(1, -(-len(insts) // 2500))
    import concurrent.futures as cf
    def one(s):
        pi, po = os.path.join(wd, f"{tag}.inst.{s}.ndjson"), os.path.join(wd, f"{tag}.obs.{s}.ndjson")
        write_ndjson(pi, insts[s::nsh]); write_ndjson(po, obs_records[s::nsh])
        return tlc(module, module + ".cfg", {"INST": pi, "OBS": po}, wd, workers=max(2, NCPU // min(nsh, 4)), timeout=3000)
    verdicts = {}; last = ""
    with cf.ThreadPoolExecutor(min(nsh, 4)) as ex:
        for r in ex.map(one, range(nsh)):
            res.add_tlc(r); last = r["out"]
            for iid, cls, rest in parse_verdicts(r["out"]): verdicts.setdefault(iid, {})[cls] = rest
    missing = [i["id"] for i in insts if i["id"] not in verdicts]
    if missing: raise ToolError(f"{module}: no verdict for instances {missing[:8]}\n" + last[-3000:])
    return verdicts

def executable(insts, obs):
    return [(i, o) for i, o in zip(insts, obs) if o["compile"]["t"] == "ok" and o.get("exec", {}).get("t") == "ok"]

# ------------------------------------------------------------------ C02
UNIFORM = [{"p": "", "d": "e1"}, {"p": "", "d": "e2"}, {"p": "", "d": "n2"}, {"p": "", "d": "e3"}, {"p": "", "d": "n3"}]
def check_C02(tier, seed):
    import props_interp as PI, random
    res = Result("C02", tier, seed, "model_checking")
    wd = workdir("C02")
    quick = tier == "quick"
    insts = universe.semantic_universe(tier, seed + 400)
    rng = random.Random(seed)
    for inst in insts:
        inst["policies"] = UNIFORM
        inst["tpolicies"] = [{"p": "", "d": "e2"}, {"p": PI.random_policy_text(rng, 40), "d": "n1"}]
    ntr = 8 if quick else 24
    ntrace = 150 if quick else 1200
    traced = {id(x) for x in universe.spread(insts, ntrace)}        # spread over every schema and family, not the first ntrace
    for inst in insts:
        if id(inst) not in traced: inst["tpolicies"] = []
    obs = observe(insts, wd, f"ir,batch:{ntr},chunk:3,trace", seed)
    # (1) real vs real: the row sequence under sampled policies equals the unbatched run
    npol = 0; seen = set(); nontrivial = 0
    for inst, o in executable(insts, obs):
        b = o["batch"]; npol += b["policies"]
        k = inst_key(inst)
        if k not in seen:
            seen.add(k)
            if o["exec"]["rows"] and b["ncalls"] >= 2: nontrivial += 1
        for bad in b["bad"]:
            what = {"rows": "row sequence differs", "panic": f"engine panicked ({bad.get('err', '')[:160]})", "argerr": "argument error"}[bad["what"]]
            res.violation(f"{what} under batching policy [{bad['policy']}] default {bad['default']} for query {inst['text']!r}", text=bad.get("err", "rows differ"), tags=props.inst_tags(inst),
                          replay=props.replay_case(inst, o, policy=bad["policy"], default=bad["default"], batched_rows=bad.get("rows")))
        if not b["bad"] and o["exec"]["rows"] and b["ncalls"] >= 4: res.sample(brief(inst, {"rows": len(o["exec"]["rows"]), "resolver_calls": b["ncalls"], "policies": b["policies"]}), cap=2)
    # (2) the model: every schedule of the general bounded-buffer adapter (Cap 2, pulls inside calls) on small instances
    small = [PI.interp_instance(i, o) for i, o in zip(insts, obs) if PI.usable(i, o, 12) and o.get("trace") and o["trace"][0].get("t") == "ok" and len(o["trace"][0]["events"]) <= (110 if quick else 170)]
    small = PI.stratify(small, 40 if quick else 200)
    for k, x in enumerate(small): x["id"] = k + 1
    mc = PI.mc_explore(res, small, "MC_Interp_c2", wd, "mc", timeout=(240 if quick else 2400))
    for inv, x in mc["violated"]:
        msg = f"Interp (all schedules) violates {inv} on query {x['text']!r}" if x else f"Interp violates {inv}"
        if inv == "Stuck": res.drift.append(msg + " - the model reaches a state in which the engine still runs but no action is enabled (the real runs all ended)")
        elif inv in ("RowsPrefix", "RowsFinal", "SemFinal"): res.drift.append(msg + " - the model's rows differ from the real engine's unbatched rows")
        else: res.violation(msg, text="model " + inv, replay={"instance": x, "invariant": inv})
    # (3) binding B: traces of Tap(Batching(GA)) under read-ahead policies must be behaviours of Interp (policy inferred by TLC)
    txs = PI.trace_instances(insts, obs)
    acc, rej, bad_inv = PI.validate(res, txs, wd, "tr")
    byid = {x["id"]: x for x in txs}
    for iid, d in rej.items():
        x = byid[iid]
        if d and d.get("next") and d["next"]["e"] == "Row":
            res.violation(f"under policy [{x['policy']}|{x['default']}] the engine produced a row the specification does not produce at that point (event {d['matched'] + 1} of {d['of']}) for query {x['text']!r}",
                          text="trace-row", replay={"instance": {k: x[k] for k in ("schema", "g", "q", "text", "args")}, "policy": x["policy"], "default": x["default"], "diag": d})
        else:
            res.drift.append(f"trace of query {x['text'][:80]!r} under [{x['policy'][:20]}|{x['default']}] is not a behaviour of Interp: {json.dumps(d)[:300]}")
    for inv, iid in bad_inv:
        if inv in ("NoPanic", "LentIffInCall"): res.violation(f"real trace drives Interp into a violation of {inv}", text="trace " + inv, replay={"instance": byid.get(iid, {}).get("text")})
    # (4) binding A: schedules generated by TLC replayed through the Scripted adapter on the real engine
    simx = [PI.interp_instance(i, o) for i, o in zip(insts, obs) if PI.usable(i, o, 30) and o["exec"]["rows"]][: (60 if quick else 400)]
    for k, x in enumerate(simx): x["id"] = k + 1
    scheds = PI.tlc_schedules(res, simx, "MC_Interp_sim", wd, 300 if quick else 4000, seed)
    src = {i["id"]: i for i in insts}
    rinsts = []
    for k, x in enumerate(simx):
        if (k + 1) in scheds:
            i2 = dict(src[x["src"]]); i2["scheds"] = scheds[k + 1]; i2["policies"] = []; i2["tpolicies"] = []; rinsts.append(i2)
    nsched = 0; sdrift = 0
    if rinsts:
        robs = observe(rinsts, wd, "sched:2", seed, shards=min(8, max(1, len(rinsts) // 10)))
        for inst, o in zip(rinsts, robs):
            sc = o.get("sched", {"ran": 0, "bad": [], "script_drift": 0})
            nsched += sc["ran"]; sdrift += sc["script_drift"]
            for bad in sc["bad"]:
                res.violation(f"{'row sequence differs' if bad['what'] == 'rows' else 'engine panicked: ' + bad.get('err', '')[:160]} under the TLC-generated adapter schedule {bad['sched'][:60]} for query {inst['text']!r}",
                              text=bad.get("err", "rows differ"), tags=props.inst_tags(inst), replay=props.replay_case(inst, o, sched=bad["sched"], cap=2))
    if sdrift: res.drift.append(f"{sdrift} TLC schedules were not consumed exactly by the real engine (decision points differ from Interp)")
    res.cov["evaluations"] = npol + nsched + len(txs)
    res.cov["distinct_nontrivial"] = nontrivial
    res.cov["traces_validated_against_impl"] = len(acc)
    res.cov["exhaustive"] = False
    res.cov["rule"] = (f"(1) every executable instance of the semantic universe under {len(UNIFORM)} uniform and {ntr} seeded random per-call read-ahead policies: row SEQUENCE equal to the unbatched run, no panic; "
                       f"(2) TLC explores spec/Interp.tla over EVERY schedule of the general order-preserving adapter (buffer <= 2, pulls inside resolver calls) for {len(small)} small instances whose IR comes from the real frontend, "
                       "checking NoPanic, carrier discipline (LentIffInCall), rows = the real engine's rows in order and = Sem as a bag in every state; (3) real AdapterTap traces of batched runs validated as behaviours of Interp with the policy inferred; "
                       f"(4) {nsched} schedules generated by TLC simulation replayed through the Scripted adapter on the real engine. evaluations = policy runs + schedules + traces; distinct non-trivial = distinct instances with >= 1 row and >= 2 resolver calls")
    res.notes.update({"policy_runs": npol, "mc_instances": len(small), "mc_states": mc["distinct"], "mc_complete": mc["complete"], "mc_wall_s": round(mc["wall"], 1), "mc_actions_taken": mc["actions"], "mc_actions_never_taken": [a for a, n in mc["actions"].items() if n == 0], "traces": len(txs), "traces_accepted": len(acc),
                      "traces_rejected": len(rej), "tlc_schedules_replayed": nsched, "schedule_drift": sdrift})
    if txs: res.sample({"trace_of": txs[0]["text"], "policy": txs[0]["default"], "events": [f"{e['e']}:{e['call'] or e['ny']}" for e in txs[0]["events"][:25]]}, cap=4)
    if scheds and rinsts: res.sample({"tlc_schedule": rinsts[0]["scheds"][0][:80], "query": rinsts[0]["text"]}, cap=5)
    res.assumptions += ["the Batching / Scripted wrappers preserve context order (FIFO buffers)", "Interp.tla mirrors execution.rs (checked by trace validation; disagreement is reported as MODEL-DRIFT)"]
    return res

# ------------------------------------------------------------------ C03
def with_root_id(inst):
    inst = copy.deepcopy(inst); q = inst["q"]
    for p in q["props"]:
        if p["name"] == "id":
            p["outputs"].append({"name": "rid__"}); break
    else:
        q["props"].append(G.prop_node("id", outputs=["rid__"]))
    inst["text"] = G.render_query(q)
    return inst

def check_C03(tier, seed):
    res = Result("C03", tier, seed, "model_checking")
    wd = workdir("C03")
    insts = [with_root_id(i) for i in universe.semantic_universe(tier, seed + 500)]
    ntrace = 400 if tier == "quick" else 4000
    for inst in insts: inst["tpolicies"] = [{"p": "", "d": "n1"}]
    # the instances whose traces are exported and validated are spread over every schema and family; they are moved to the front
    tr = universe.spread(insts, ntrace); trids = {id(x) for x in tr}
    insts = universe.renumber(tr + [x for x in insts if id(x) not in trids])
    obs = observe(insts[:ntrace], wd, "ir,pulls,trace", seed) + (observe(insts[ntrace:], wd, "pulls", seed) if insts[ntrace:] else [])
    ji, jo = [], []
    for inst, o in executable(insts, obs):
        if len(o["exec"]["rows"]) > props.MAX_JUDGED_ROWS: continue
        pl = o["pulls"]
        if "pulls" not in pl:
            res.violation(f"engine panicked while counting pulls: {pl}", text=json.dumps(pl), replay=props.replay_case(inst, o)); continue
        ji.append(inst); jo.append({"id": inst["id"], "args": o["args"], "rows": o["exec"]["rows"], "pulls": pl["pulls"], "before": pl["before_first"], "drops": [d for d in pl["drops"] if isinstance(d, list)]})
        for d in pl["drops"]:
            if not isinstance(d, list): res.violation(f"panic after early drop: {d}", text=json.dumps(d), replay=props.replay_case(inst, o))
    verdicts = judge(res, "JudgeLazy", ji, jo, wd, "lazy")
    nprefix = 0; nontrivial = 0; seen = set()
    for inst, o in zip(ji, jo):
        v = verdicts[inst["id"]]
        nprefix += len(o["rows"]) + len(o["drops"])
        info = json.loads(tla_unquote(v["lazy.done"]))
        k = inst_key(inst)
        if k not in seen:
            seen.add(k)
            if info["rows"] >= 1 and info["starts"] >= 2: nontrivial += 1
        for cls, what in (("C03.eager", "data was accessed before the first row was requested"), ("C03.late", "more starting vertices were pulled than the row needs"),
                          ("C03.afterdrop", "data was accessed after the result iterator was dropped")):
            if cls in v:
                res.violation(f"{what}: {tla_unquote(v[cls])[:200]} for query {inst['text']!r}", text=cls, tags=props.inst_tags(inst), replay=props.replay_case(inst, None, observed=o, judge=tla_unquote(v[cls])))
        if info["rows"] >= 2 and info["starts"] >= 3 and not any(c.startswith("C03.") for c in v):
            res.sample({"query": inst["text"], "starts": info["starts"], "pulled_at_each_row": o["pulls"][:12], "drops[k, accesses at drop, after]": o["drops"][:4]}, cap=3)
        if info["unexplained"]: res.drift.append(f"instance {inst['id']}: {info['unexplained']} rows not explained by Sem!RowsFrom (C01's business)")
    # model level: Interp with the adapter that never reads ahead satisfies Lazy in every state (nothing fetched unless the consumer waits,
    # a row comes from the last start vertex fetched, no buffered data between requests)
    import props_interp as PI
    small = [PI.interp_instance(i, o) for i, o in zip(insts[:ntrace], obs[:ntrace]) if PI.usable(i, o, 30)]
    small = PI.stratify(small, 150 if tier == "quick" else 1500)
    for k, x in enumerate(small): x["id"] = k + 1
    mc = PI.mc_explore(res, small, "MC_Interp_lazy", wd, "mc", timeout=(300 if tier == "quick" else 1800))
    for inv, x in mc["violated"]:
        msg = f"Interp (no read-ahead) violates {inv} on query {x['text']!r}" if x else f"Interp violates {inv}"
        if inv == "Lazy": res.violation(msg, text="model Lazy", replay={"instance": x, "invariant": inv})
        else: res.drift.append(msg)
    # binding B: the real traces of the unbatched engine are behaviours of Interp with Cap = 1 and no eager pulls, Lazy checked at every step
    txs = PI.trace_instances(insts[:ntrace], obs[:ntrace])
    acc, rej, bad_inv = PI.validate(res, txs, wd, "tr", cfg="InterpTrace_lazy")
    byid = {x["id"]: x for x in txs}
    for iid, d in rej.items():
        x = byid[iid]; nx = (d or {}).get("next") or {}
        if nx.get("e") == "YieldFrom" and nx.get("fn") == "start" or nx.get("e") == "Advance" or nx.get("e") == "NbrInner":
            res.violation(f"the engine accessed data that the lazy specification does not demand at that point (event {d['matched'] + 1} of {d['of']}: {nx.get('e')} call {nx.get('call')}) for query {x['text']!r}",
                          text="trace-eager-access", tags=props.inst_tags(x), replay={"instance": {k: x[k] for k in ("schema", "g", "q", "text", "args")}, "diag": d})
        else:
            res.drift.append(f"lazy trace of {x['text'][:80]!r} is not a behaviour of Interp: {json.dumps(d)[:300]}")
    for inv, iid in bad_inv:
        if inv == "Lazy": res.violation(f"real trace violates the Lazy invariant of Interp", text="trace Lazy", replay={"instance": byid.get(iid, {}).get("text")})
    res.cov["evaluations"] = nprefix
    res.cov["distinct_nontrivial"] = nontrivial
    res.cov["traces_validated_against_impl"] = len(ji) + len(acc)
    res.cov["rule"] = ("every executable instance (root vertex id added as an output so a row identifies its start vertex), run with the adapter that never reads ahead; for every prefix length k of the result stream "
                       "TLC checks pulled(k) <= position of the contributing start vertex (Sem!RowsFrom), zero accesses before the first request, zero accesses after dropping at k (k <= 6). "
                       f"Model level: TLC checks the invariant Lazy of spec/Interp.tla (Cap = 1, no pulls inside calls) on {len(small)} instances; the real AdapterTap traces of the unbatched engine are validated as behaviours of that "
                       "lazy configuration with Lazy evaluated after every event. evaluations = prefixes judged; distinct non-trivial = distinct instances with >= 1 row and >= 2 start vertices")
    res.notes.update({"mc_instances": len(small), "mc_states": mc["distinct"], "mc_complete": mc["complete"], "mc_actions_never_taken": [a for a, n in mc["actions"].items() if n == 0], "lazy_traces": len(txs), "lazy_traces_accepted": len(acc), "lazy_traces_rejected": len(rej)})
    return res

# ------------------------------------------------------------------ C04
def d11_signature(inst, o):
    """The exact shape of known finding D11: a dynamic hint for a property filtered with `>= %tag` is an upper-bounded range that discards a larger value."""
    ge_props = set()
    for node, *_ in props.scopes(inst["q"]):
        for p in node["props"]:
            for f in p["filters"]:
                if f["op"] == ">=" and f["arg"]["k"] == "tag": ge_props.add(p["name"])
    for h in o.get("prune", {}).get("hints", []):
        if h.get("kind") == "dynamic" and not h["kept"] and h["prop"] in ge_props:
            c = h["cand"]
            if c.get("t") == "range" and c["hi"]["t"] == "inc" and h["value"].get("k") == c["hi"]["v"].get("k"):
                k = h["value"]["k"]          # the discarded value lies ABOVE the inverted upper bound (integers, strings, floats alike)
                if k == "int" and G.unlimbs(h["value"]["v"]) > G.unlimbs(c["hi"]["v"]["v"]): return True
                if k == "str" and "".join(h["value"]["v"]).encode() > "".join(c["hi"]["v"]["v"]).encode(): return True
                if k == "float" and h["value"]["v"] > c["hi"]["v"]["v"]: return True
                if k in ("list", "bool", "enum"): return True       # same shape of candidate for a `>= %tag` property; ordering of these kinds is not re-implemented here
            if c.get("t") in ("single", "multiple", "impossible"):   # the inverted range intersected with other filters
                return True
    return False

def check_C04(tier, seed):
    res = Result("C04", tier, seed, "model_checking")
    wd = workdir("C04")
    insts = universe.semantic_universe(tier, seed + 600)
    try:
        import hintfam
        insts += hintfam.hint_instances(tier, seed)
        universe.renumber(insts)
    except ImportError:
        pass
    obs, verdicts = props.run_semantic(res, insts, "ir,prune", wd, seed, want_pruned=True)
    props.count_universe(res, insts, obs, verdicts, rule_extra="Each is run through the Pruning adapter, which discards vertices outside statically/dynamically required property candidates or lacking a mandatory edge; "
                         "TLC compares the pruned run's row bag with Sem.")
    stats = {"static": 0, "mandatory": 0, "dynamic": 0, "pruned": 0}
    for inst, o in zip(insts, obs):
        pr = o.get("prune")
        if not pr: continue
        for k in stats: stats[k] += pr.get(k, 0)
        tags = set(props.inst_tags(inst))
        if d11_signature(inst, o): tags.add("ge_tag_dynamic_hint_excludes_value")
        if pr.get("t") == "panic":
            res.violation(f"hint resolution panicked: {pr['err'][:200]} for query {inst['text']!r}", text=pr["err"], tags=tags | {"hint_consuming_adapter"}, replay=props.replay_case(inst, o, adapter="pruning")); continue
        v = verdicts.get(inst["id"], {})
        if "C04.mismatch" in v:
            res.violation(f"pruning by the hints changed the results ({len(pr.get('rows', []))} rows instead of {len(o['exec']['rows'])}) for query {inst['text']!r} args {{{', '.join(k + '=' + G.pretty(x) for k, x in o.get('args', {}).items())}}}",
                          text="pruned-mismatch", tags=tags, replay=props.replay_case(inst, o, adapter="pruning", pruned_rows=pr.get("rows"), hints=pr.get("hints", [])[:40]))
        elif "C04.ok" in v and pr.get("pruned", 0) > 0 and o["exec"]["rows"]:
            res.sample(brief(inst, {"rows": len(o["exec"]["rows"]), "vertices_discarded_by_hints": pr["pruned"], "hints_consulted": {k: pr[k] for k in ("static", "mandatory", "dynamic")}}), cap=3)
    res.notes["hints_consulted"] = stats
    # per hint, independent of the data: a statically derived candidate contains every value of a probe universe that satisfies the static filters
    ji, jo = [], []
    for inst, o in zip(insts, obs):
        hs = [{"kind": h["kind"], "vid": h["vid"], "prop": h["prop"], "cand": h["cand"], "src": h.get("src", 0), "eid": int(h["site"].split(":")[1]) if h["site"].startswith("nbrs:") else 0}
              for h in o.get("prune", {}).get("hints", []) if h.get("kind") in ("static", "dynamic") and h["cand"].get("t") != "unknown"]
        hs += [{"kind": "mandatory", "vid": h["vid"], "prop": "", "edge": h["edge"], "cand": {"t": "all"}, "src": 0, "eid": 0} for h in o.get("prune", {}).get("hints", []) if h.get("kind") == "mandatory"]
        for h in hs: h.setdefault("edge", "")
        seen_h = set(); uniq = []
        for h in hs:
            k = json.dumps(h, sort_keys=True)
            if k not in seen_h: seen_h.add(k); uniq.append(h)
        if uniq and "ir" in o and '"float"' not in json.dumps(o.get("args", {})):
            ji.append({"id": inst["id"], "g": inst["g"], "schema": inst["schema"]}); jo.append({"id": inst["id"], "ir": o["ir"], "args": o.get("args", {}), "hints": uniq})
    hv = judge(res, "JudgeHints", ji, jo, wd, "hints") if ji else {}
    byid = {i["id"]: i for i in insts}; nh = 0
    byobs = {i["id"]: o for i, o in zip(insts, obs)}
    for x, o in zip(ji, jo):
        nh += len(o["hints"]); v = hv[x["id"]]
        if "hint.unsound" in v:
            d = json.loads(tla_unquote(v["hint.unsound"])); inst = byid[x["id"]]
            tg = set(props.inst_tags(inst))
            if d["hint"]["kind"] == "dynamic":
                # known finding D11: the candidate for `>= %tag` is upper-bounded by the tag (or what remains of that after intersecting other filters)
                ge = {p["name"] for node, *_ in props.scopes(inst["q"]) for p in node["props"] for f in p["filters"] if f["op"] == ">=" and f["arg"]["k"] == "tag"}
                c = d["hint"]["cand"]
                if d["hint"]["prop"] in ge and ((c.get("t") == "range" and c["hi"]["t"] in ("inc", "exc")) or c.get("t") in ("single", "multiple", "impossible")): tg.add("ge_tag_dynamic_hint_excludes_value")
            if d["hint"]["kind"] == "mandatory":
                res.violation(f"edge {d['hint']['edge']!r} is reported as mandatory for vertex {d['hint']['vid']} although rows can exist without it (it is @optional, @recurse, or a @fold whose count filters admit 0) in query {inst['text']!r}",
                              text="mandatory-hint-unsound", tags=tg, replay=props.replay_case(inst, None, hint=d["hint"], args=o["args"])); continue
            res.violation(f"the {d['hint']['kind']}ally required candidate {d['hint']['cand']} reported for property {d['hint']['prop']!r} of vertex {d['hint']['vid']} excludes the value {G.pretty(d['excluded'])}, which satisfies every filter on that property (tag values taken from the source vertex {d['hint'].get('src')}), in query {inst['text']!r} args {{{', '.join(k + '=' + G.pretty(a) for k, a in o['args'].items())}}}",
                          text="pruned-mismatch" if d["hint"]["kind"] == "dynamic" else "static-hint-unsound", tags=tg, replay=props.replay_case(inst, None, hint=d["hint"], excluded=d["excluded"], args=o["args"]))
    res.notes["hints_judged_for_soundness"] = nh
    return res

# ------------------------------------------------------------------ C05 / C21
def run_calls(res, tier, seed, wd):
    insts = universe.semantic_universe(tier, seed + 700)
    obs = observe(insts, wd, "calls", seed)
    run_calls.last_insts, run_calls.last_obs = insts, obs
    ex = executable(insts, obs)
    ji = [i for i, o in ex]; jo = [{"id": i["id"], "calls": o["calls"]["calls"]} for i, o in ex]
    verdicts = judge(res, "JudgeCalls", ji, jo, wd, "calls")
    return ex, verdicts

def check_C21(tier, seed):
    res = Result("C21", tier, seed, "model_checking")
    wd = workdir("C21")
    ex, verdicts = run_calls(res, tier, seed, wd)
    # the harness's graph adapter refuses (panics with "GraphAdapter: ...") to resolve a property its vertex's type does not have: that is the engine
    # handing it a vertex that is not an instance of the named type - the contract violated, seen from the adapter's side
    for inst, o in zip(run_calls.last_insts, run_calls.last_obs):
        e = o.get("exec", {})
        if o["compile"]["t"] == "ok" and e.get("t") == "panic" and str(e.get("err", "")).startswith("GraphAdapter:"):
            res.violation(f"adapter called outside the contract: {e['err'][:160]} (the engine asked for a property of a vertex that is not an instance of the named type) for query {inst['text']!r}",
                          text="contract " + e["err"], tags=props.inst_tags(inst), replay=props.replay_case(inst, o))
    ncalls = 0; kinds = {}; seen = set(); nontrivial = 0
    for inst, o in ex:
        v = verdicts[inst["id"]]
        calls = o["calls"]["calls"]; ncalls += len(calls)
        for c in calls: kinds[c["fn"]] = kinds.get(c["fn"], 0) + 1
        k = inst_key(inst)
        if k not in seen:
            seen.add(k)
            if any(c["active"] for c in calls): nontrivial += 1
        if "C21.bad" in v:
            d = json.loads(tla_unquote(v["C21.bad"]))
            c = d["call"]
            res.violation(f"adapter called outside the contract: {c['fn']}(type={c['type']!r}, field={c['field']!r}, to={c['to']!r}, params={[(p[0], G.pretty(p[1])) for p in c['params']]}, active vertex types {c['active']}) for query {inst['text']!r}",
                          text=json.dumps(c), tags=props.inst_tags(inst), replay=props.replay_case(inst, o, call=c))
        elif len(calls) >= 5: res.sample({"query": inst["text"], "calls": [f"{c['fn']}({c['type']}.{c['field'] or c['to']})" for c in calls][:12]}, cap=3)
    res.cov["evaluations"] = ncalls
    res.cov["distinct_nontrivial"] = nontrivial
    res.cov["traces_validated_against_impl"] = len(ex)
    res.cov["rule"] = ("every resolver call the real engine makes on the executable instances (logged by the CallLog wrapper with type, field, coercion target, parameters and the concrete types of the active vertices that flowed in) "
                       "is judged by TLC against Contract!ContractOK and the instance's abstract schema. evaluations = calls judged; distinct non-trivial = distinct instances in which at least one call received a vertex")
    res.notes["calls_by_kind"] = kinds
    return res

def check_C05(tier, seed):
    res = Result("C05", tier, seed, "model_checking")
    wd = workdir("C05")
    ex, verdicts = run_calls(res, tier, seed + 50, wd)
    nprop = 0; seen = set(); nontrivial = 0
    for inst, o in ex:
        v = verdicts[inst["id"]]
        calls = o["calls"]["calls"]
        np_ = sum(1 for c in calls if c["fn"] == "prop"); nprop += np_
        k = inst_key(inst)
        if k not in seen:
            seen.add(k)
            if np_: nontrivial += 1
        tags = set(props.inst_tags(inst))
        if "C05.bad" in v:
            d = json.loads(tla_unquote(v["C05.bad"])); c = d["call"]
            used_in_fold = c["field"]  # classification for the known finding: is the property needed only by a tag used inside a fold / count filter?
            res.violation(f"resolve_property({c['type']}.{c['field']}) at vertex {c['vid']} is not in the required-properties reported for that vertex ({c['required']}) for query {inst['text']!r}",
                          text=json.dumps(c), tags=tags | tag_only_inside_fold(inst, c), replay=props.replay_case(inst, o, call=c))
        elif np_ >= 3: res.sample({"query": inst["text"], "property_calls": [f"vid {c['vid']}: {c['field']} in {c['required']}" for c in calls if c["fn"] == "prop"][:8]}, cap=3)
    res.cov["evaluations"] = nprop
    res.cov["distinct_nontrivial"] = nontrivial
    res.cov["traces_validated_against_impl"] = len(ex)
    res.cov["rule"] = ("every resolve_property call of the real engine on the executable instances; TLC checks that the requested property is listed in required_properties() of every ResolveInfo / destination "
                       "VertexInfo the engine handed out for that query vertex (starting vertices, neighbors' destination, coercion, property). evaluations = property calls judged")
    return res

def tag_only_inside_fold(inst, call):
    """Structural predicate for the known finding: the property is tagged at this vertex and the tag is used only inside @fold scopes / fold-count filters."""
    q = inst["q"]; out = set()
    # pre-order vertex numbering = Vid
    order = []
    def walk(n):
        order.append(n)
        for e in n["edges"]: walk(e)
    walk(q)
    if call["vid"] - 1 >= len(order): return out
    node = order[call["vid"] - 1]
    tagnames = [t["name"] or (p["alias"] or p["name"]) for p in node["props"] if p["name"] == call["field"] for t in p["tags"]]
    plain_use = any(p["name"] == call["field"] and (p["outputs"] or p["filters"]) for p in node["props"])
    if tagnames and not plain_use: out.add("property_needed_only_by_tag")
    return out

# ------------------------------------------------------------------ C14
def check_C14(tier, seed):
    res = Result("C14", tier, seed, "exploration")
    wd = workdir("C14")
    insts = universe.semantic_universe(tier, seed + 800)
    # plus documents the frontend rejects (several errors at once: the error value and its text must be stable too), and argument maps
    # with several variables missing / extra (the execution-time error)
    import docfam, itertools, copy
    alpha = ["filter", "output", "tag", "transform", "optional", "recurse", "fold", "bogus"]
    seqs = [((), "", False)] + [((a,), "", False) for a in alpha] + [((a, b), "", False) for a in alpha for b in alpha]
    docs = docfam.doc_instances(seqs, seed)
    multi = [copy.deepcopy(i) for i in universe.spread([i for i in insts if len(i["args"]) >= 2], 150 if tier == "quick" else 1500)]
    for i in multi: i["args"] = {"zz_b": G.I(1), "zz_a": G.I(2), "zz_c": G.S("x")}; i["rawargs"] = True
    # history: the same query text compiled against several schemas that differ only in a default value, each schema parsed for that instance alone
    # and dropped afterwards; processes see them in different orders, so anything remembered across compilations (by text, by address) shows
    import foldfam, lib as GL
    sc1 = GL.VS1(); hg = foldfam.fold_graph(sc1, 5); hist = []
    texts = [GL.edge_node("NodesFrom", props=[GL.prop_node("id", outputs=["rid"])]),
             GL.edge_node("NodesFrom", props=[GL.prop_node("id", outputs=["rid"]), GL.prop_node("val", filters=[GL.FVar(">=", "v")])], edges=[GL.edge_node("next", "fold", props=[GL.prop_node("val", outputs=["nv"])])]),
             GL.edge_node("NodesFrom", props=[GL.prop_node("name", outputs=["n"])], edges=[GL.edge_node("peer", "optional", props=[GL.prop_node("id", outputs=["p"])])])]
    for rep in range(2):
        for j in (0, 2, 1, 3, 4):
            for q in texts:
                x = GL.make_instance(0, sc1, hg, q, {"v": GL.I(1)} if "$v" in GL.render_query(q) else {}, cls={"family": "history", "default": j})
                x["sdl"] = x["sdl"].replace("min: Int! = 0", f"min: Int! = {j}"); x["freshSchema"] = True
                assert f"= {j}" in x["sdl"]
                hist.append(x)
    # near-valid queries: most are rejected, many with several errors raised at different vertices (their order must be stable too)
    mut = universe.mutated_universe(tier, seed + 800)
    insts = universe.renumber(insts + docs + multi + mut + hist)
    nproc = 3 if tier == "quick" else 8
    ip = os.path.join(wd, "inst.ndjson"); write_ndjson(ip, insts)
    rp = os.path.join(wd, "inst.rev.ndjson"); write_ndjson(rp, list(reversed(insts)))
    procs = []
    for k in range(nproc):
        op = os.path.join(wd, f"obs.{k}.ndjson")
        src = rp if k == nproc - 1 else ip          # the last process sees the instances in reverse order (no state may leak between queries)
        procs.append((subprocess.Popen([VH, "observe", src, op, "ir,calls,callseq"], env=dict(os.environ, VERIF_SEED=str(seed)), stderr=subprocess.PIPE, text=True), op, k))
    runs = []
    for p, op, k in procs:
        _, err = p.communicate(timeout=3600)
        if p.returncode != 0: raise ToolError("vh observe failed: " + err[-2000:])
        lines = [l for l in open(op).read().split("\n") if l]
        runs.append({json.loads(l)["id"]: l for l in lines})
    base = runs[0]; nontrivial = 0; seen = set()
    for inst in insts:
        ref = base[inst["id"]]
        o = json.loads(ref)
        k = inst_key(inst)
        if k not in seen:
            seen.add(k)
            if o["compile"]["t"] == "ok" and o.get("exec", {}).get("t") == "ok" and o["exec"]["rows"]: nontrivial += 1
        for r, run in enumerate(runs[1:], 1):
            if run[inst["id"]] != ref:
                o2 = json.loads(run[inst["id"]])
                diff = [key for key in set(o) | set(o2) if o.get(key) != o2.get(key)]
                res.violation(f"process {r} disagrees with process 0 on {diff} (compiled query / error text / rows in order / adapter call sequence) for query {inst['text']!r}", text="nondeterminism " + ",".join(diff),
                              tags=props.inst_tags(inst), replay=props.replay_case(inst, o, other={k2: o2.get(k2) for k2 in diff}))
                break
        else:
            if o["compile"]["t"] == "ok" and o.get("exec", {}).get("t") == "ok" and len(o["exec"]["rows"]) >= 2 and len(res.cov["samples"]) < 3:
                res.sample({"query": inst["text"], "rows": len(o["exec"]["rows"]), "adapter_calls": len(o["calls"]["calls"]), "sha1_of_observation": hashlib.sha1(ref.encode()).hexdigest()})
    res.cov["evaluations"] = len(insts) * nproc
    res.cov["distinct_nontrivial"] = nontrivial
    res.cov["rule"] = (f"every instance of the semantic universe (including those the frontend rejects: the error text must be stable too) is observed in {nproc} fresh processes (fresh hash seeds; the last one in reverse "
                       "instance order); the serialised observation - IR skeleton or error text, rows in order, every resolver call with parameters, and the sequence of contexts each call received - must be byte-identical. "
                       "distinct non-trivial = distinct executable instances with at least one row")
    return res

# ------------------------------------------------------------------ C15
def check_C15(tier, seed):
    import props_interp as PI
    res = Result("C15", tier, seed, "model_checking")
    wd = workdir("C15")
    insts = universe.semantic_universe(tier, seed + 900)
    obs = observe(insts, wd, "ir,tap,trace", seed)
    nops = 0; nontrivial = 0; seen = set(); ntr = 0
    for inst, o in executable(insts, obs):
        t = o["tap"]; ntr += 1
        k = inst_key(inst)
        if k not in seen:
            seen.add(k)
            if o["exec"]["rows"]: nontrivial += 1
        if t.get("t") != "ok":
            res.violation(f"tracing adapter run panicked: {t.get('err', '')[:200]} for query {inst['text']!r}", text=t.get("err", ""), tags=props.inst_tags(inst), replay=props.replay_case(inst, o, tap=t)); continue
        nops += t["ops"]
        if not t["same_rows"]:
            res.violation(f"rows through the tracing adapter differ from the direct run for query {inst['text']!r}", text="tap-rows-differ", tags=props.inst_tags(inst), replay=props.replay_case(inst, o, tap=t))
        if not t["roundtrip_eq"]:
            res.violation(f"recorded trace does not survive (de)serialisation for query {inst['text']!r}: {t['replay']}", text="trace-roundtrip", tags=props.inst_tags(inst), replay=props.replay_case(inst, o, tap=t))
        elif not t["replay"].get("same"):
            res.violation(f"replaying the recorded trace does not reproduce the rows for query {inst['text']!r}: {t['replay'].get('err', '')[:200]}", text="trace-replay " + t["replay"].get("err", ""), tags=props.inst_tags(inst), replay=props.replay_case(inst, o, tap=t))
        elif o["exec"]["rows"] and t["ops"] > 30: res.sample({"query": inst["text"], "rows": len(o["exec"]["rows"]), "trace_ops": t["ops"]}, cap=3)
    # the recorded trace is a behaviour of the specification (every event, every context, every row)
    txs = PI.trace_instances(insts, obs)
    acc, rej, bad_inv = PI.validate(res, txs, wd, "tr")
    byid = {x["id"]: x for x in txs}
    for iid, d in rej.items():
        x = byid[iid]; nx = (d or {}).get("next") or {}
        if nx.get("e") == "Row":
            res.violation(f"the recorded trace contains a row the specification does not produce at that point (event {d['matched'] + 1} of {d['of']}) for query {x['text']!r}", text="trace-row",
                          tags=props.inst_tags(x), replay={"instance": {k: x[k] for k in ("schema", "g", "q", "text", "args")}, "diag": d})
        else: res.drift.append(f"recorded trace of {x['text'][:80]!r} is not a behaviour of Interp: {json.dumps(d)[:300]}")
    # the repository's own recorded traces (numbers adapter, 134 hand-written queries) replayed WITHOUT a data source: the data is whatever
    # the recorded adapter returned; each must be a behaviour of Interp in its no-read-ahead configuration (this is the specification of what
    # interpreter/replay.rs relies on)
    cxs, cskipped = PI.corpus_instances(wd)
    cacc, crej, _ = PI.validate(res, cxs, wd, "corpus", cfg="InterpTrace_lazy", shards=2)
    cby = {x["id"]: x for x in cxs}
    for iid, d in crej.items():
        res.drift.append(f"repository trace {cby[iid]['file']} is not a behaviour of Interp: {json.dumps(d)[:300]}")
    res.notes.update({"corpus_traces": len(cxs), "corpus_traces_accepted": len(cacc), "corpus_skipped": cskipped})
    res.cov["evaluations"] = ntr
    res.cov["distinct_nontrivial"] = nontrivial
    res.cov["traces_validated_against_impl"] = len(acc) + len(cacc)
    res.cov["rule"] = ("every executable instance is run through the repository's AdapterTap; rows must equal the direct run; the trace is serialised to RON, deserialised (must be equal), and replayed by the repository's "
                       "replay::assert_interpreted_results with no data source attached (must reproduce exactly the rows); the same trace, exported event by event, is validated by TLC as a behaviour of spec/Interp.tla "
                       "(InterpTrace: calls, advances, every projected context, outcomes, rows); the repository's own *.trace.ron corpus is validated as well, with the data taken from the trace itself. distinct non-trivial = distinct instances with at least one row")
    res.notes.update({"traces": len(txs), "traces_accepted": len(acc), "traces_rejected": len(rej)})
    res.notes["trace_ops_total"] = nops
    return res
