"""Driver library: build, generators, TLC runs, verdict aggregation, known findings, evidence, replay files.
TLC is the judge; this code only counts, classifies and writes files (DESIGN 5.4, 10)."""
import hashlib, json, os, re, shutil, subprocess, sys, time

ROOT = os.path.dirname(os.path.dirname(os.path.abspath(__file__)))
sys.path.insert(0, os.path.join(ROOT, "gen"))
WORK = os.path.join(ROOT, "work")
SPEC = os.path.join(ROOT, "spec")
VH = os.path.join(ROOT, "harness", "target", "debug", "vh")
NCPU = os.cpu_count() or 4
TLA_CP = "/opt/veriftools/tla/tla2tools.jar:/opt/veriftools/tla/CommunityModules-deps.jar"

class ToolError(Exception): pass

def log(*a):
    print(*a, flush=True)

def workdir(name):
    d = os.path.join(WORK, name)
    shutil.rmtree(d, ignore_errors=True)
    os.makedirs(d, exist_ok=True)
    return d

def build_harness():
    """Rebuilds the harness against /repo's current working tree (path dependency)."""
    t0 = time.time()
    lock = os.path.join(ROOT, "harness", "Cargo.lock")
    if not os.path.exists(lock): shutil.copy("/repo/Cargo.lock", lock)
    env = dict(os.environ, CARGO_NET_OFFLINE="true")
    p = subprocess.run(["cargo", "build", "--offline", "--quiet"], cwd=os.path.join(ROOT, "harness"), env=env, capture_output=True, text=True)
    if p.returncode != 0:
        return False, p.stderr[-6000:], time.time() - t0
    return True, "", time.time() - t0

def write_ndjson(path, items):
    with open(path, "w") as f:
        for x in items: f.write(json.dumps(x) + "\n")

def read_ndjson(path):
    out = []
    with open(path) as f:
        for l in f:
            if l.strip(): out.append(json.loads(l))
    return out

def vh(args, env=None, timeout=1800):
    e = dict(os.environ)
    if env: e.update({k: str(v) for k, v in env.items()})
    p = subprocess.run([VH] + args, env=e, capture_output=True, text=True, timeout=timeout)
    if p.returncode != 0:
        raise ToolError(f"vh {' '.join(args[:2])} failed rc={p.returncode}: {p.stderr[-3000:]}")
    return p.stdout

def observe(insts, wd, modes, seed=1, shards=None):
    """Runs `vh observe` over instances, sharded over processes; returns observations in order."""
    shards = shards or min(NCPU, max(1, len(insts) // 150))
    procs = []
    for s in range(shards):
        part = insts[s::shards]
        ip, op = os.path.join(wd, f"inst.{s}.ndjson"), os.path.join(wd, f"obs.{s}.ndjson")
        write_ndjson(ip, part)
        procs.append((subprocess.Popen([VH, "observe", ip, op, modes], env=dict(os.environ, VERIF_SEED=str(seed)), stderr=subprocess.PIPE, text=True), op, len(part)))
    outs = []
    for p, op, n in procs:
        _, err = p.communicate(timeout=3600)
        if p.returncode != 0: raise ToolError(f"vh observe failed: {err[-3000:]}")
        o = read_ndjson(op)
        if len(o) != n: raise ToolError("vh observe: observation count mismatch")
        outs.append(o)
    res = [None] * len(insts)
    for s in range(shards):
        for j, o in enumerate(outs[s]): res[s + j * shards] = o
    return res

TLC_STATS = re.compile(r"(\d+) states generated, (\d+) distinct states found")

def tlc(module, cfg, env, wd, workers=8, timeout=1800, simulate=None, extra=None, deque=False, heap="8g"):
    """Runs TLC on spec/<module>.tla with spec/<cfg>; returns dict(out, states, distinct, ok, verdicts)."""
    import uuid
    uid = uuid.uuid4().hex[:10]         # TLC unpacks its library modules into java.io.tmpdir: every run gets its own, concurrent runs must not share one
    meta = os.path.join(wd, "tlcmeta." + module + "." + uid)
    tmp = os.path.join(wd, "jtmp." + uid); os.makedirs(tmp, exist_ok=True)
    # java is invoked directly (same jars as the `tlc` wrapper) so that -Xss also sizes the main thread,
    # which evaluates invariants on initial states (JAVA_TOOL_OPTIONS only reaches threads created later)
    jopts = ["-Xss1g", f"-Xmx{heap}", f"-Djava.io.tmpdir={tmp}", "-XX:+UseParallelGC"]
    if deque: jopts.append("-Dtlc2.tool.queue.IStateQueue=StateDeque")
    e = dict(os.environ)
    e.pop("JAVA_TOOL_OPTIONS", None)
    e.update({k: str(v) for k, v in env.items()})
    cmd = ["timeout", str(timeout), "java"] + jopts + ["-cp", TLA_CP, "tlc2.TLC", "-workers", str(workers), "-metadir", meta, "-cleanup", "-noGenerateSpecTE", "-config", cfg]
    if simulate: cmd += ["-simulate", simulate]
    if extra: cmd += extra
    cmd += [module + ".tla"]
    t0 = time.time()
    p = subprocess.run(cmd, cwd=SPEC, env=e, capture_output=True, text=True)
    out = p.stdout + p.stderr
    shutil.rmtree(meta, ignore_errors=True); shutil.rmtree(tmp, ignore_errors=True)
    m = None
    for m in TLC_STATS.finditer(out): pass
    res = {"out": out, "rc": p.returncode, "wall": time.time() - t0,
           "states": int(m.group(1)) if m else 0, "distinct": int(m.group(2)) if m else 0,
           "ok": "No error has been found" in out or "Model checking completed. No error" in out}
    if p.returncode == 124: raise ToolError(f"TLC timed out after {timeout}s on {module}")
    if ("Parsing or semantic analysis failed" in out) or ("Error: " in out and "No error has been found" not in out and "VERDICT" not in out and "is violated" not in out):
        raise ToolError(f"TLC failed on {module}/{cfg}:\n" + out[-4000:])
    return res

VERDICT_RE = re.compile(r'^<<"VERDICT", (.*)>>$')

def parse_verdicts(out):
    """PrintT(<<"VERDICT", id, "class", detail...>>) lines -> list of (id, cls, rest-string)"""
    vs = []
    for line in out.splitlines():
        m = VERDICT_RE.match(line.strip())
        if not m: continue
        body = m.group(1)
        mm = re.match(r'(-?\d+|"[^"]*"), "([^"]*)"(?:, (.*))?$', body, re.S)
        if not mm: continue
        iid = mm.group(1); iid = int(iid) if not iid.startswith('"') else iid.strip('"')
        vs.append((iid, mm.group(2), mm.group(3) or ""))
    return vs

def tla_unquote(s):
    """A TLA+ string literal printed by PrintT -> python string (ToJson payloads)"""
    s = s.strip()
    if s.startswith('"') and s.endswith('"'): s = s[1:-1]
    return s.replace('\\"', '"').replace("\\\\", "\\")

# ------------------------------------------------------------------ known findings
def load_known():
    p = os.path.join(ROOT, "known_findings.json")
    if not os.path.exists(p): return []
    return json.load(open(p))

def match_known(prop, text, tags=()):
    """text: panic message / violation description; tags: structural predicates that hold for the failing case.
    An entry matches only if it is open, for this property, its regex matches and its predicate (if any) is among the tags."""
    for k in load_known():
        if k.get("property") != prop or not str(k.get("status", "")).startswith("open"): continue
        sig = k.get("signature", {})
        if "panic" in sig and not re.search(sig["panic"], text or "", re.S): continue
        if "predicate" in sig and sig["predicate"] not in tags: continue
        return k
    return None

# ------------------------------------------------------------------ results
class Result:
    def __init__(self, prop, tier, seed, level):
        self.prop, self.tier, self.seed, self.level = prop, tier, seed, level
        self.t0 = time.time()
        self.cov = {"evaluations": 0, "distinct_nontrivial": 0, "rule": "", "samples": [], "states": 0, "transitions": 0,
                    "traces_validated_against_impl": 0, "exhaustive": False}
        self.assumptions = []
        self.violations = []      # dicts: {"what":..., "text":..., "tags":[...], "replay": {...}}
        self.known_hits = {}
        self.drift = []
        self.notes = {}
    def add_tlc(self, r):
        self.cov["states"] += r["distinct"]; self.cov["transitions"] += r["states"]
    def violation(self, what, text="", tags=(), replay=None):
        k = match_known(self.prop, (what + " " + (text or "")), tags)
        if k:
            self.known_hits.setdefault(k["id"], {"entry": k, "count": 0, "example": what})["count"] += 1
            return False
        self.violations.append({"what": what, "text": text, "tags": list(tags), "replay": replay or {}})
        return True
    def sample(self, s, cap=6):
        if len(self.cov["samples"]) < cap: self.cov["samples"].append(s)

def finish(res):
    """Writes evidence, replay files, prints KNOWN-FINDING / VIOLATION lines, returns exit code."""
    os.makedirs(os.path.join(ROOT, "evidence"), exist_ok=True)
    rdir = os.path.join(ROOT, "replays", res.prop); os.makedirs(rdir, exist_ok=True)
    for kid, h in sorted(res.known_hits.items()):
        log(f"KNOWN-FINDING: property={res.prop} {kid}: {h['entry']['what']} (hit {h['count']}x, e.g. {h['example'][:160]})")
    for d in res.drift[:10]: log(f"MODEL-DRIFT: {d}")
    paths = []
    for n, v in enumerate(res.violations[:20]):
        p = os.path.join(rdir, f"{res.tier}-{n}.json")
        with open(p, "w") as f: json.dump({"property": res.prop, "what": v["what"], "text": v["text"], "tags": v["tags"], "case": v["replay"],
                                           "how_to_rerun": f"cd /verif && bin/check replay {p}"}, f, indent=1)
        paths.append(p)
    cov = dict(res.cov)
    cov["known_findings_hit"] = {k: v["count"] for k, v in res.known_hits.items()}
    cov["drift"] = len(res.drift)
    cov.update(res.notes)
    if not cov["samples"]: cov["samples"] = ["(no sample recorded)"]
    ev = {"property_id": res.prop, "tier": res.tier, "seed": res.seed, "level": res.level, "coverage": cov,
          "assumptions": res.assumptions, "wall_s": round(time.time() - res.t0, 2), "violations": len(res.violations)}
    with open(os.path.join(ROOT, "evidence", f"{res.prop}.json"), "w") as f: json.dump(ev, f, indent=1)
    log(f"{res.prop} {res.tier}: evaluations={cov['evaluations']} distinct_nontrivial={cov['distinct_nontrivial']} states={cov['states']} "
        f"traces={cov['traces_validated_against_impl']} known={sum(cov['known_findings_hit'].values())} violations={len(res.violations)} wall={ev['wall_s']}s")
    if res.violations:
        for p, v in zip(paths, res.violations): log(f"VIOLATION property={res.prop} replay={p}   # {v['what'][:200]}")
        return 1
    return 0

def inst_key(inst):
    return hashlib.sha1((inst["text"] + json.dumps(inst["g"], sort_keys=True) + json.dumps(inst.get("args", {}), sort_keys=True)).encode()).hexdigest()

def brief(inst, extra=None):
    """A compact, readable rendering of an instance for evidence samples."""
    from lib import pretty
    g = inst["g"]
    d = {"id": inst["id"], "schema": inst["schema"]["name"], "query": inst["text"], "args": {k: pretty(v) for k, v in inst.get("args", {}).items()},
         "graph": {"verts": [f'{v["id"]}:{v["ty"]}' + "{" + ",".join(f"{p}={pretty(x)}" for p, x in v["props"].items()) + "}" for v in g["verts"]],
                   "adj": {e: l for e, l in g["adj"].items() if l}, "entry": g["entry"]}, "cls": inst.get("cls", {})}
    if extra: d.update(extra)
    return d
