"""Checks for the pure-function properties: C06 C07 C08 C16 C17 C18 (TLC checks the laws on the model and
enumerates the abstract cases; the harness replays every case through the real code; TLC judges the replies)."""
import json, os, time
from vlib import *
import lib as G

def run_mc_values(res, wd):
    """TLC: laws of C07/C08 on the model + dump of the value universe."""
    out = os.path.join(wd, "universe.json")
    r = tlc("MC_Values", "MC_Values.cfg", {"OUT": out}, wd, workers=8, timeout=900, extra=["-coverage", "1"])
    res.add_tlc(r)
    if not r["ok"]:
        raise ToolError("MC_Values: a law fails on the model itself (specification error, not an implementation verdict):\n" + r["out"][-3000:])
    return json.load(open(out)), r

# ------------------------------------------------------------------ C08
def check_C08(tier, seed):
    res = Result("C08", tier, seed, "model_checking")
    wd = workdir("C08")
    uni, r = run_mc_values(res, wd)
    obs = os.path.join(wd, "valcmp.ndjson")
    vh(["valcmp", os.path.join(wd, "universe.json"), obs])
    j = tlc("JudgeValues", "JudgeValues.cfg", {"OBS": obs}, wd, workers=8, timeout=900)
    res.add_tlc(j)
    vs = parse_verdicts(j["out"])
    n = len(read_ndjson(obs))
    if len(vs) != n: raise ToolError(f"JudgeValues: {len(vs)} verdicts for {n} values\n" + j["out"][-2000:])
    for iid, cls, rest in vs:
        if cls == "C08.bad":
            d = json.loads(tla_unquote(rest))
            res.violation(f"== / partial_cmp disagree with the value order on {G.pretty(d['a'])} vs {G.pretty(d['b'])}: eq={d['eq']} (want {d['wantEq']}), cmp={d['cmp']} (want {d['wantCmp']})",
                          text=json.dumps(d), replay={"values": d})
    res.cov["evaluations"] = n * n
    res.cov["distinct_nontrivial"] = n * n - n
    res.cov["traces_validated_against_impl"] = 0
    res.cov["exhaustive"] = True
    res.cov["rule"] = (f"universe of {n} field values defined in spec/MC_Values.tla (null, booleans, signed/unsigned integers at i64::MIN, MIN+1, -1, 0, 1, 2^31, i64::MAX, MAX+1, u64::MAX-1, u64::MAX in every "
                       "representation that holds them, floats, strings, enums, lists up to depth 2 incl. mixed representations); TLC checks the equivalence / total-order laws on all triples of the model, "
                       "then every ordered pair is evaluated by the real == and partial_cmp and judged by TLC against ValueEq / TotalLess; distinct non-trivial = ordered pairs of distinct values")
    res.cov["samples"] = [{"a": G.pretty(uni["scalars"][i]), "b": G.pretty(uni["scalars"][-1 - i])} for i in range(3)]
    res.notes["law_states"] = r["distinct"]
    return res

# ------------------------------------------------------------------ C07
def check_C07(tier, seed):
    import ops, props
    res = Result("C07", tier, seed, "model_checking")
    wd = workdir("C07")
    uni, r = run_mc_values(res, wd)
    insts = ops.ops_instances(uni)
    obs, verdicts = props.run_semantic(res, insts, "ir", wd, seed)
    npairs = 0; bad = 0; byop = {}
    for inst, o in zip(insts, obs):
        if o["compile"]["t"] != "ok":
            res.violation(f"operator instance rejected or panicked in the frontend: {o['compile']}", text=json.dumps(o["compile"]), replay=props.replay_case(inst, o)); continue
        ex = o.get("exec", {})
        if ex.get("t") == "panic":
            res.violation(f"operator {inst['cls']['op']} ({inst['cls']['path']} path, {inst['cls']['kind']}) panicked: {ex['err'][:200]}", text=ex["err"], tags={"ops", inst["cls"]["kind"]}, replay=props.replay_case(inst, o)); continue
        if ex.get("t") != "ok":
            res.violation(f"operator instance not executed: {ex}", text=json.dumps(ex), replay=props.replay_case(inst, o)); continue
        npairs += len(inst["g"]["verts"]); byop[inst["cls"]["op"]] = byop.get(inst["cls"]["op"], 0) + len(inst["g"]["verts"])
        v = verdicts.get(inst["id"], {})
        if "C01.mismatch" in v:
            want = json.loads(tla_unquote(v["C01.mismatch"]))
            res.violation(f"operator {inst['cls']['op']} ({inst['cls']['path']} path, {inst['cls']['kind']}) decides differently from its definition; args {{{', '.join(k + '=' + G.pretty(x) for k, x in inst['args'].items())}}}",
                          text="ops-mismatch", tags={"ops", inst["cls"]["kind"]}, replay=props.replay_case(inst, o, expected_rows=want))
        elif len(res.cov["samples"]) < 4 and ex["rows"]:
            res.sample({"op": inst["cls"]["op"], "path": inst["cls"]["path"], "kind": inst["cls"]["kind"], "args": {k: G.pretty(x) for k, x in inst["args"].items()},
                        "pairs": len(inst["g"]["verts"]), "passing": len(ex["rows"])})
    res.cov["evaluations"] = npairs
    res.cov["distinct_nontrivial"] = npairs
    res.cov["exhaustive"] = True
    res.cov["rule"] = ("every (operator, left, right) the frontend's typing admits over the TLC-dumped value universe, driven through the public query path of the real engine (variable path with argument values, "
                       "tag path with the right operand read from another property); the set of vertices that pass is compared by TLC with Values!FilterOp via Sem. evaluations = operand pairs decided.")
    res.notes["pairs_by_operator"] = byop
    res.notes["instances"] = len(insts)
    return res
