#!/usr/bin/env python3
"""Writes /verif/MANIFEST.json from the table below (single source of truth for what is claimed)."""
import json, os
ROOT = os.path.dirname(os.path.dirname(os.path.abspath(__file__)))
ALL = [f"C{n:02d}" for n in range(1, 28)]

MC, EX, FE = "model_checking", "exploration", "fault_enumeration"
CHECKS = {
 "C01": (MC, "6/C01", "TLC judge: bag equality of real rows with Sem.tla (declarative semantics) over generated query x graph instances",
         "Every row bag the real engine returns on the generated universe (VS1/VS2/VS3 schemas, seeded random + systematic queries, small graphs) is compared by TLC with the bag defined by Sem.tla, "
         "a denotational semantics written from spec.md that shares nothing with the frontend or interpreter. Bounded: graphs <= 5 vertices, queries <= 3 edge levels.",
         "Trusts Sem.tla as a reading of spec.md (defended by the C23 theorems and agreement on the bulk of instances), the AST->GraphQL renderer in gen/, the GraphAdapter, TLC and its Json module."),
 "C09": (EX, "6/C09", "exploration of the stress universe on the real engine under catch_unwind (plain, batching and hint-consuming adapters); Sem.tla supplies the input space",
         "Every accepted instance of the stress universe is executed on the real engine under catch_unwind with the plain, batching and hint-consuming adapters; a panic or a run that does not end is a violation. "
         "The model contributes the structured input space and totality of Sem; panic-freedom itself is observed, not model-checked.",
         "Assumes the GraphAdapter and wrappers honour the adapter contract; bounded by the generated universe."),
 "C13": (MC, "6/C13", "TLC judge: row keys = declared outputs, Types!Fits(value, declared type), declared types = Query!OutTypes(source AST)",
         "For every instance TLC checks that each real row carries exactly the declared output names, that each value fits the declared type (Types.tla), and that the declared types equal the ones Query.tla derives "
         "from the source-level query (nullable under @optional, one list level per @fold, list nullable iff the fold hangs under an @optional, Int! counts).",
         "Trusts Query!OutTypes as a reading of the language reference; same universe bounds as C01."),
 "C06": (MC, "6/C06", "TLC: Candidates.tla (transcription of candidates.rs) proved exact on all candidate pairs of a bounded domain; every pair replayed through the real intersect/normalize/exclude/contains and judged by TLC",
         "TLC enumerates ~194 candidates per domain (every bound combination, null inclusion, singles, multiples, impossible, all) over three concretisations (signed, mixed signed/unsigned beyond i64::MAX, strings), "
         "proves the set-exactness laws for the transcription on all pairs x probes, and every pair is executed by the real functions through the __verif hooks; TLC judges membership of every probe in every result.",
         "Bounded to a 4-point ordered domain + null per concretisation for the code; the range arithmetic of the transcription is additionally proved exact for all integers by TLAPS (spec/RangeLaws.tla, 6 obligations, status in the evidence file). Trusts the hook wrappers (thin pub fns), TLC and the SMT back end."),
 "C07": (MC, "6/C07", "TLC: operator laws on Values.tla over the bounded value universe; every typed (operator, left, right) driven through the real engine's public filter path (variable and tag arguments) and judged by TLC via Sem",
         "TLC checks complement / null / numeric-order / partition laws of FilterOp on the model, dumps the universe, and every operand pair the frontend's typing admits is decided by the real engine through real queries "
         "(variable path with its precompiled regex, tag path), the passing set being compared with Values!FilterOp.",
         "Regex restricted to the fragment ^?literal$?; universe bounded (boundary integers in both representations, 4 floats, 4 strings, lists up to depth 2)."),
 "C08": (MC, "6/C08", "TLC: equivalence and total-order laws on Values.tla for all triples; real == and partial_cmp on every ordered pair judged by TLC against ValueEq/TotalLess",
         "All triples of an 83-value universe (null, bools, boundary integers in both representations, floats, strings, enums, nested and mixed-representation lists) satisfy the laws on the model, and the real "
         "PartialEq/PartialOrd of FieldValue agree with the model on every ordered pair.",
         "Bounded universe; finite floats only."),
 "C16": (EX, "6/C16", "exploration: round trips of TLC-enumerated types and values and of compiled queries; type text judged by TLC against Types!Render",
         "Identity after JSON/RON round trips for 120 types, 83 values and the compiled queries of the semantic universe; Display tokens equal Types!Render and parse(Display(t)) = t; untagged JSON form and back.",
         "The model content is thin (identity laws, the token grammar of types); exploration level."),
 "C17": (MC, "6/C17", "TLC: lattice / partial-order / equivalence / monotonicity laws on Types.tla for all pairs and triples of 120 types; every pair replayed through the real type operations and judged by TLC",
         "TLC proves the laws on the model for all 120 types (4 bases x up to 3 list levels x all nullability masks) and 40+ values, and the real intersect, is_scalar_only_subtype, equal_ignoring_nullability and "
         "is_valid_value agree with Types.tla on every ordered pair / (type, value).",
         "Bounded to 3 list levels; enum values excluded from is_valid_value (unsupported by the crate, see C12)."),
 "C18": (MC, "6/C18", "TLC judge: Decode.tla outcome (ok iff representable and identical / err) for every value x target type decoded by the real TryIntoStruct",
         "Every value of the 83-value universe is decoded into 19 target field types (all integer widths, f32/f64, bool, String, Option, Vec, nested Vec, tuple) by the real deserializer; TLC compares each outcome with "
         "Decode!Outcome: a value is produced iff it is representable, and then it is exactly the row's value.",
         "Bounded universe; f64->f32 narrowing and float->integer are not judged (the property does not speak of them); EdgeParameters decoding not yet driven."),
 "C02": (MC, "6/C02", "TLC explores spec/Interp.tla over every schedule of a general bounded-buffer order-preserving adapter; real AdapterTap traces of batched runs validated against it; TLC-generated schedules replayed on the real engine",
         "Interp.tla is a small-step model of execution.rs (stages, query carriers, folds, recursion) with the adapter's pull/yield choices nondeterministic. TLC checks on every schedule (buffer <= 2, pulls inside resolver calls) of small real-IR instances that "
         "no carrier is used while lent, nothing panics, and the row sequence equals the real engine's unbatched rows. Bound to the code three ways: recorded traces of Tap(Batching(GA)) must be behaviours of Interp (policy inferred), TLC-generated "
         "decision strings are replayed through the Scripted adapter (rows must equal the unbatched run), and sampled per-call policies are compared real-vs-real.",
         "Exhaustive only for small instances and buffer 2; larger instances by simulation and sampled policies. Trace rejections that violate no property observer are reported as MODEL-DRIFT."),
 "C03": (MC, "6/C03", "TLC: Lazy invariant of spec/Interp.tla (no read-ahead configuration) + real traces validated against that configuration + JudgeLazy (pull counts vs Sem!RowsFrom provenance at every prefix, no access before first request / after drop)",
         "Model: in every reachable state of Interp with Cap = 1 and no pulls inside calls, nothing is fetched unless the consumer is waiting, no stage holds buffered data between requests, and each row comes from the last start vertex fetched. "
         "Code: the real unbatched traces must be behaviours of exactly that configuration (Lazy evaluated after every event), and for every executable instance the pulled-start-vertex count at each row is bounded by the "
         "position of the start vertex that Sem says contributes it; zero accesses before the first next() and after dropping at every prefix k <= 6.",
         "If a row could come from several start vertices the largest index is used (lenient, never a false alarm); trusts Sem!RowsFrom."),
 "C04": (MC, "6/C04", "TLC judges (a) JudgeSem: row bag of the real engine over a hint-pruning adapter = Sem.tla rows; (b) JudgeHints: every candidate the engine reports - statically derived, or dynamically resolved from tags that live on the edge's source vertex - contains, over a probe universe of values that is independent of the dataset, every value satisfying the filters on that property (Candidates!Contains vs Values!FilterOp)",
         "Every instance is executed through the Pruning adapter, which discards start vertices and neighbours outside statically/dynamically required property candidates or lacking a mandatory edge (recursively through destination().edges); TLC compares the bag with Sem. Each distinct (vertex, property, candidate) reported by statically_required_property is also judged for soundness against the static filters of the compiled query on ~40 probe values of the property's type (negative / zero / positive integers, strings, floats, booleans, null, graph values, arguments and their elements).",
         "Membership in a candidate is decided by the harness's own comparison (numeric / byte order), not by the crate's; D11 is a listed known finding."),
 "C05": (MC, "6/C05", "TLC judge (JudgeCalls/Contract!RequiredComplete): every resolve_property call of real runs is listed by every required_properties() report for that vertex",
         "The CallLog wrapper records every resolver call with the required_properties() of the ResolveInfo / destination VertexInfo; TLC checks each requested property is in every report for that query vertex.",
         "Same universe as C01."),
 "C14": (EX, "6/C14", "byte comparison of full observations (IR or error text, rows in order, resolver calls with parameters, per-call context sequence) across fresh processes",
         "Every instance (including frontend-rejected ones) is observed in 3 (thorough 8) fresh processes with fresh hash seeds, one in reverse instance order; the serialised observations must be byte-identical.",
         "The deciding observation is byte equality across processes; the model supplies the input space."),
 "C15": (MC, "6/C15", "rows through AdapterTap = direct rows; RON round trip; replay by replay::assert_interpreted_results; the recorded trace validated by TLC as a behaviour of spec/Interp.tla (InterpTrace)",
         "Every executable instance is traced by the repository's AdapterTap; the trace is serialised to RON and back (must be equal), replayed by the repository's TraceReaderAdapter without the data source (must reproduce the rows), "
         "and, exported event by event with the projected DataContext at each yield, validated by TLC against the operational specification.",
         "Trace validation covers instances with <= 30 rows and <= 1500 events; rejections that are not row mismatches are reported as MODEL-DRIFT."),
 "C21": (MC, "6/C21", "TLC judge (JudgeCalls/Contract!ContractOK): every resolver call of real runs judged against the abstract schema",
         "Every resolver call of the real engine (type, field, coercion target, parameters, concrete types of active vertices) is judged by TLC against Contract!ContractOK.",
         "Same universe as C01; trusts the CallLog wrapper."),
 "C22": (MC, "6/C22", "TLC judge: rows of the real engine = Sem.tla (which never terminates a fold early) on the systematic fold-count sub-universe; Interp's fold stage with the max/min stopping rules checked against the same rows",
         "gen/foldfam.py enumerates count-filter operator x argument (-1, 0, 1, 2, 3, u64::MAX, lists, pairs of bounds) x 11 classes of what observes the fold (nothing, count output, outputs inside, nested fold outputs/count, "
         "the tagged count used in a parent filter, a sibling fold, a nested scope of a sibling fold, another count filter) x fold sizes 0..4, at top level and under @optional; TLC compares each real row bag with Sem. "
         "Model level: Interp.tla's FoldCollect (stop at max+1, stop at min only when nothing observes the fold) yields the same rows on a sample.",
         "Bounded to the enumerated classes plus the random universe's count-filter queries."),
 "C23": (MC, "6/C23", "TLC judge (JudgeMeta): each metamorphic relation checked as a theorem about Sem.tla and on the real engine's rows for the transformed pair",
         "gen/meta.py applies nine source-level transformations (add filter, deeper recursion, make optional, parameter<->filter, = <-> one_of, filter/negation partition, renaming, sibling property / edge reordering) to the semantic universe; "
         "TLC evaluates the predicted bag relation on Sem's rows (validating the specification against spec.md's equivalences) and on the rows the real engine returned.",
         "Side conditions (outside folds / optional scopes) are part of the transformation; cases the frontend rejects or with > 40 rows are skipped and counted."),
 "C11": (MC, "6/C11", "TLC judge (JudgeIR): the eight structural clauses evaluated on the IR exported from every compiled query, plus agreement with the pre-order numbering of the source AST, with Query!ImpliedVarTypes, and (as drift only) with spec/Lower.tla, the full source-to-IR function",
         "For every query the real frontend accepts, TLC evaluates on the exported IR: edge i -> vertex i+1; every vid/eid in exactly one component, numbered 1..n; folds precede their contents; edges go from lower to higher vids; "
         "tags (and fold-count tags) are defined before their uses; each fold's imported_tags equal, as sets, the tags of its enclosing component used anywhere below it; every variable use carries a type that the query-level variable type is a subtype of; "
         "vertex k is the k-th scope of the source query in pre-order with the expected type, edge name, fold / optional / recursion flags.",
         "'Imported tags' is read as the IR documents it (tags of the directly enclosing component; outer ones are inherited through contexts). Bounded by the generated universe."),
 "C12": (MC, "6/C12", "TLC judge (ArgCheck.tla): accept iff complete, no extras and every value Fits its inferred type; the error must name exactly the offending variables",
         "For every compiled query with variables: the valid map, the empty map, each variable dropped, extra names, each variable replaced by each of 17 values of every kind and nesting, and two bad values at once are given to the real "
         "InterpretedQuery::from_query_and_arguments; TLC compares accept/reject and the named missing / unused / ill-typed variables with ArgCheck.tla.",
         "Enum values are in the universe since D10 was repaired (they fit no supported type)."),
 "C19": (MC, "6/C19", "TLC judge (Schema!ValidSchema, one named predicate per documented rule) on a mutant family of schema documents rendered to SDL and given to the real Schema::parse under catch_unwind",
         "A valid base schema and every single mutation (thorough: every pair) of a 56-operator catalogue covering each rule in both directions plus duplicate / malformed blocks; the real accept / typed-error / panic outcome is compared with Schema!ValidSchema.",
         "Documents are built from object / interface types, custom scalars, directive definitions and schema blocks; enum / union / input / extend definitions are outside the supported constructs. Eight malformed-document panics are listed known findings (D13)."),
 "C20": (MC, "6/C20", "TLC judge (Introspect!Expected): row bags of ten fixed introspection queries through the real SchemaAdapter compared with the contents of the abstract schema document; check_adapter_invariants on SchemaAdapter",
         "For every schema of the family that the real validator accepts, vertex types and interface flags, implements, implementer, properties with type text, edges with target / cardinality flags, parameters with type text and JSON default, "
         "and entrypoints are queried through the real SchemaAdapter (directly and through the Schema vertex); TLC compares each row bag with Introspect.tla. The repository's own check_adapter_invariants is run on SchemaAdapter.",
         "Docs strings are not compared. Bounded by the schema family."),
 "C10": (EX, "6/C10", "TLC enumerates spec/DirectiveFSM.tla (directive-grouping automaton of the parser; its invariants checked) and every reachable directive sequence, plus catalogues of malformed directives, document shapes and parameter literals, is parsed by the real frontend under catch_unwind; spec/Frontend.tla (phase-by-phase model of validation.rs / mod.rs / filters.rs / tags.rs) predicts acceptance or the set of error kinds for random and mutated well-formed queries (TLC judge JudgeFrontend)",
         "Every directive sequence of length <= 3 (thorough 4) over the 7 directives and an unknown one, at an edge field, a property field and the root field; ~80 malformed single directives; ~110 document shapes (0-3 operations of each kind, fragments, variable definitions, "
         "operation directives, root selections, inline fragments, aliases, unterminated text); ~20 parameter literals at three positions. Plus ~2 000 valid queries of the semantic universe and ~3 000 near-valid ones (gen/badq.py: 25 targeted mutations of valid queries; thorough x10). Verdict: Ok or a typed error, never a panic. The automaton's predicted parse-level class and "
         "Frontend.tla's predicted outcome (accepted / exact set of error variants) are compared and reported as MODEL-DRIFT only - no listed property speaks about WHICH typed error is returned.",
         "Below GraphQL token level (arbitrary bytes) is async-graphql-parser's territory and is not enumerated; panic-freedom itself is observed, not model-checked."),
 "C24": (EX, "6/C24", "TLC checks Threads.tla (every interleaving of threads over once-cells and shared immutable data gives the sequential results); the real Arc<Schema> / Arc<IndexedQuery> are shared by 8 barrier-released threads in fresh processes and compared with the sequential run",
         "Model: 3 threads x 3 once-cells x 2 operations, all interleavings: results equal the sequential ones, each cell initialised exactly once and never rewritten. Code: in each of 24 (thorough 300) fresh processes 8 threads race to "
         "initialise the crate's lazily initialised statics, compile 12 queries concurrently against one shared schema and execute shared compiled queries; IR and rows must equal the sequential ones. Send + Sync is enforced at compile time of the harness.",
         "No schedule of the real threads is observable: final-state conformance only."),
 "C25": (FE, "6/C25", "Checker.tla gives the probe set of check_adapter_invariants for each schema; one fault per resolver site and mode is injected into a generic contract-abiding adapter and the real checker must panic exactly at probed sites (TLC judge)",
         "For each schema: the fault-free adapter must pass; a non-null property / a neighbour / a true coercion for a context without an active vertex, and swapped (thorough: reversed, dropped, duplicated) contexts, injected at every property "
         "(incl. __typename), edge and interface->implementer coercion site must be caught exactly when the site is in the documented probe set (edges with a required parameter without default are documented as unchecked).",
         "Single faults only; the fault-free adapter is schema-generic (it returns null / nothing / false for the vertex-less contexts the checker sends)."),
 "C26": (EX, "6/C26", "Stubgen.tla (the generator's and the derive macro's snake-case functions, escaping, identifier namespaces) predicts refusal / compilation per naming case; the real generator is run and every generated stub is compiled offline with cargo test --no-run",
         "Naming-focused valid schemas (consecutive capitals, digits, underscores, case-only and underscore-only differences, Rust keywords and reserved words as type / field / edge / entrypoint names, Type vs Type_, std-like names): "
         "a refusal for a predicted identifier collision is accepted, any other generator failure or a stub that rustc rejects is a violation. Quick 7 schemas, thorough 19.",
         "'Is valid Rust' is decided by rustc, not by the model; properties use built-in scalars only."),
 "C27": (EX, "6/C27", "rows through the freshly built Python bindings (Python mirror of GraphAdapter) = Rust engine rows = Sem.tla (TLC judge); Python value conversion cases judged by TLC against PyValue.tla",
         "400 (thorough 3000) instances are executed through pytrustfall's execute_query with a Python GraphAdapter: row sequence equal to the Rust engine's, bag equal to Sem. 44 Python values (None, bools, ints at and beyond every 64-bit boundary, "
         "finite and non-finite floats, unicode strings, homogeneous / heterogeneous / nested lists, tuple, dict, bytes, float-like and arbitrary objects) are sent as property values (must come back equal) and as arguments; accept / reject and returned kind are compared with PyValue.tla, whose laws TLC checks.",
         "CPython 3.11 of the sandbox decides; the model supplies the value-kind semantics."),
}
NOT_YET = "check not built yet at this commit (see DESIGN.md section 6 for the planned decision procedure)"

def main():
    checks = []
    for pid in ALL:
        if pid not in CHECKS: continue
        level, ref, tech, text, note = CHECKS[pid]
        checks.append({"property_id": pid, "quick_cmd": f"bin/check {pid} quick", "thorough_cmd": f"bin/check {pid} thorough",
                       "evidence_file": f"/verif/evidence/{pid}.json", "replay_cmd_template": "bin/check replay {path}", "engine": "tlc+rust-harness",
                       "level_claimed": {"category": level, "text": text, "design_ref": ref}, "level_note": note, "technique": tech})
    m = {"version": 1,
         "setup_cmd": "bin/setup",
         "hooks": {"guard": "cargo feature trustfall_core/__verif", "enable": "the harness crate depends on trustfall_core with features = [\"__verif\", \"__private\"] (path dependency on /repo/trustfall_core)",
                   "baseline_off_cmd": "cd /repo && cargo nextest run --workspace --no-fail-fast --test-threads 8 --offline",
                   "source_commits": ["3838c17"], "add_only": True},
         "engines": [{"name": "tlc+rust-harness", "path": "/verif/bin/check", "serves_properties": sorted(CHECKS), "kind_free_text": "TLA+ specifications in /verif/spec checked/evaluated by TLC; Rust harness /verif/harness drives the real trustfall_core; python driver aggregates verdicts"}],
         "checks": checks,
         "notes": "Model-based verification with explicit TLA+ specifications (spec/), bound to the code by replay of TLC-enumerated cases, trace validation and TLC-judged observations. See DESIGN.md.",
         "not_applicable": [{"property_id": p, "reason": NOT_YET} for p in ALL if p not in CHECKS]}
    with open(os.path.join(ROOT, "MANIFEST.json"), "w") as f: json.dump(m, f, indent=1)
    print(f"MANIFEST.json: {len(checks)} checks, {len(m['not_applicable'])} not claimed")

if __name__ == "__main__": main()
