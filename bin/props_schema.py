"""Schema-level properties: C19 (schema validation), C20 (introspection), C25 (adapter invariant checker), C10 (frontend never panics)."""
import json, os, re
from vlib import *
import lib as G
import props

def vmap(fn, items, wd, tag):
    ip, op = os.path.join(wd, f"{tag}.in.ndjson"), os.path.join(wd, f"{tag}.out.ndjson")
    write_ndjson(ip, items); vh(["map", fn, ip, op]); return read_ndjson(op)

# ------------------------------------------------------------------ C19
PANIC_CLASSES = [  # structural predicates for the known finding D13 (malformed documents that should be typed errors)
    ("two_schema_blocks", lambda d: d["nschema"] >= 2), ("no_schema_block", lambda d: d["nschema"] == 0),
    ("query_type_undefined", lambda d: d["nschema"] == 1 and d["query"] not in [t["name"] for t in d["types"]]),
    ("query_type_is_interface", lambda d: any(t["name"] == d["query"] and t["kind"] == "interface" for t in d["types"])),
    ("builtin_scalar_redefined", lambda d: bool(set(d["scalars"] + [t["name"] for t in d["types"]]) & {"Int", "Float", "String", "Boolean", "ID"})),
    ("duplicate_scalar_or_directive", lambda d: len(set(d["scalars"])) < len(d["scalars"]) or len(set(d["dirs"])) < len(d["dirs"])),
    ("enum_default_value", lambda d: any(p["hasDefault"] and p["default"]["k"] == "enum" for t in d["types"] for f in t["fields"] for p in f["params"])),
    ("list_depth_over_30", lambda d: any(len(f["ty"]["mods"]) > 31 for t in d["types"] for f in t["fields"])),
]
def check_C19(tier, seed):
    import schemafam
    res = Result("C19", tier, seed, "model_checking")
    wd = workdir("C19")
    docs = schemafam.schema_docs(tier)
    outs = vmap("schema", [{"id": d["id"], "sdl": d["sdl"]} for d in docs], wd, "schemas")
    jin = [{"id": d["id"], "doc": d["abs"], "outcome": o["outcome"]} for d, o in zip(docs, outs)]
    p = os.path.join(wd, "judge.ndjson"); write_ndjson(p, jin)
    r = tlc("JudgeSchema", "JudgeSchema.cfg", {"INST": p}, wd, workers=NCPU, timeout=3000)
    res.add_tlc(r)
    verd = {iid: (cls, rest) for iid, cls, rest in parse_verdicts(r["out"])}
    if len(verd) != len(docs): raise ToolError(f"JudgeSchema: {len(verd)} verdicts for {len(docs)} documents\n" + r["out"][-2000:])
    nvalid = ninvalid = 0; rules = {}
    for d, o in zip(docs, outs):
        cls, rest = verd[d["id"]]; broken = json.loads(tla_unquote(rest))
        tags = {n for n, pred in PANIC_CLASSES if pred(d["doc"])}
        for b in broken: rules[b] = rules.get(b, 0) + 1
        if o["outcome"] == "panic":
            res.violation(f"Schema::parse panicked on mutation '{d['label']}': {o['text'][:200]}", text=o["text"], tags=tags, replay={"label": d["label"], "sdl": d["sdl"], "specification": broken}); continue
        if cls == "valid":
            nvalid += 1
            if o["outcome"] != "ok":
                res.violation(f"a schema that satisfies every documented rule was rejected (mutation '{d['label']}'): {o['text'][:300]}", text="rejected-valid " + ",".join(o["variants"]), tags=tags, replay={"label": d["label"], "sdl": d["sdl"], "engine": o})
            elif d["label"] != "identity": res.sample({"mutation": d["label"], "verdict": "valid, accepted"}, cap=2)
        else:
            ninvalid += 1
            if o["outcome"] == "ok":
                res.violation(f"a schema that breaks {broken} was accepted (mutation '{d['label']}')", text="accepted-invalid " + ",".join(broken), tags=tags, replay={"label": d["label"], "sdl": d["sdl"], "specification": broken})
            else: res.sample({"mutation": d["label"], "specification_breaks": broken, "engine_error": o["variants"]}, cap=5)
    res.cov["evaluations"] = len(docs)
    res.cov["distinct_nontrivial"] = ninvalid
    res.cov["exhaustive"] = tier != "quick"
    res.cov["rule"] = ("a valid base schema (two-level interface chain, parameterised edges with defaults, list and scalar properties, custom scalar) and every single mutation of gen/schemafam.py's catalogue (thorough: every pair), "
                       "covering each validity rule in both directions plus duplicate / malformed blocks; each document is rendered to SDL, given to the real Schema::parse under catch_unwind, and judged by TLC against Schema!ValidSchema. "
                       "distinct non-trivial = documents the specification rejects")
    res.notes.update({"valid_documents": nvalid, "invalid_documents": ninvalid, "rules_broken": rules})
    return res

# ------------------------------------------------------------------ C20
IQ = {
 "types": '{ VertexType { name @output is_interface @output } }',
 "schema_types": '{ Schema { vertex_type { name @output } } }',
 "implements": '{ VertexType { name @output(name: "t") implements { name @output(name: "i") } } }',
 "implementer": '{ VertexType { name @output(name: "t") implementer { name @output(name: "s") } } }',
 "properties": '{ VertexType { name @output(name: "t") property { name @output(name: "p") type @output(name: "ty") } } }',
 "edges": '{ VertexType { name @output(name: "t") edge { name @output(name: "e") to_many @output at_least_one @output target { name @output(name: "target") } } } }',
 "params": '{ VertexType { name @output(name: "t") edge { name @output(name: "e") parameter { name @output(name: "p") type @output(name: "ty") default @output(name: "d") } } } }',
 "entrypoints": '{ Entrypoint { name @output(name: "e") to_many @output at_least_one @output target { name @output(name: "target") } } }',
 "schema_entrypoints": '{ Schema { entrypoint { name @output(name: "e") } } }',
 "entry_params": '{ Entrypoint { name @output(name: "e") parameter { name @output(name: "p") type @output(name: "ty") default @output(name: "d") } } }',
}
def json_to_value(x):
    if x is None: return G.NULL
    if isinstance(x, bool): return G.B(x)
    if isinstance(x, int): return G.I(x) if x < (1 << 63) else G.U(x)
    if isinstance(x, float): return G.F2(int(x * 2))
    if isinstance(x, str): return G.S(x)
    if isinstance(x, list): return G.L([json_to_value(y) for y in x])
    return {"k": "other"}
def default_cell(v):
    """the `default` output: a JSON text or null -> some(value) / none"""
    if v["k"] == "null": return {"k": "none", "v": G.NULL}
    try: return {"k": "some", "v": json_to_value(json.loads("".join(v["v"])))}
    except Exception: return {"k": "some", "v": {"k": "other"}}

def check_C20(tier, seed):
    import schemafam
    res = Result("C20", tier, seed, "model_checking")
    wd = workdir("C20")
    docs = schemafam.schema_docs(tier)
    ok = vmap("schema", [{"id": d["id"], "sdl": d["sdl"]} for d in docs], wd, "schemas")
    valid = [d for d, o in zip(docs, ok) if o["outcome"] == "ok"]
    if tier != "quick": valid = valid[:400]
    # plus filtered lookups that go through the adapter's own use of the hints (Single / Multiple candidates)
    outs = vmap("introspect", [{"id": d["id"], "sdl": d["sdl"], "queries": [[k, v] for k, v in IQ.items()]} for d in valid], wd, "intro")
    cases = []; owner = []
    for d, o in zip(valid, outs):
        if o["t"] != "ok":
            res.violation(f"introspection of a valid schema (mutation '{d['label']}') failed: {o['t']} {o['err'][:200]}", text=o["err"], replay={"label": d["label"], "sdl": d["sdl"]}); continue
        for q in IQ:
            rows = o["res"][q]
            if q in ("params", "entry_params"): rows = [[[n, default_cell(v) if n == "d" else v] for n, v in r] for r in rows]
            cases.append({"id": len(cases) + 1, "doc": d["abs"], "q": q, "rows": rows}); owner.append(d)
    p = os.path.join(wd, "judge.ndjson"); write_ndjson(p, cases)
    r = tlc("JudgeIntrospect", "JudgeIntrospect.cfg", {"INST": p}, wd, workers=NCPU, timeout=3000)
    res.add_tlc(r)
    verd = {iid: (cls, rest) for iid, cls, rest in parse_verdicts(r["out"])}
    if len(verd) != len(cases): raise ToolError(f"JudgeIntrospect: {len(verd)} verdicts for {len(cases)} cases\n" + r["out"][-2500:])
    nrows = 0; distinct = set()
    for c, d in zip(cases, owner):
        cls, rest = verd[c["id"]]; nrows += len(c["rows"])
        distinct.add((c["q"], json.dumps(c["rows"], sort_keys=True)))
        if cls == "C20.bad":
            res.violation(f"introspection query '{c['q']}' on schema mutation '{d['label']}' reports {len(c['rows'])} rows that differ from the schema's contents", text="introspect " + c["q"], tags={"query:" + c["q"]},
                          replay={"label": d["label"], "sdl": d["sdl"], "query": IQ[c["q"]], "rows": c["rows"], "expected": json.loads(tla_unquote(rest))})
        elif c["rows"] and d["label"] != "identity": res.sample({"schema_mutation": d["label"], "query": c["q"], "rows": len(c["rows"])}, cap=4)
    # the introspection adapter itself honours the adapter contract (the repository's own invariant checker)
    inv = vmap("introspect_invariants", [{"id": d["id"], "sdl": d["sdl"]} for d in valid[:6]], wd, "inv")
    for d, o in zip(valid, inv):
        if o["t"] != "ok": res.violation(f"check_adapter_invariants fails for SchemaAdapter over schema '{d['label']}': {o.get('err', '')[:300]}", text=o.get("err", ""), replay={"label": d["label"], "sdl": d["sdl"]})
    res.cov["evaluations"] = len(cases)
    res.cov["distinct_nontrivial"] = len(distinct)
    res.cov["rule"] = ("every schema of the mutant family that the real Schema::parse accepts; ten fixed introspection queries (vertex types and interface flags, implements, implementer, properties with type text, edges with target / to_many / at_least_one, "
                       "edge parameters with type text and JSON default, entrypoints and their parameters, the same through the Schema vertex) run through the real SchemaAdapter; TLC compares each row bag with Introspect!Expected derived from the abstract document. "
                       "distinct non-trivial = distinct (query, result) pairs")
    res.notes.update({"schemas": len(valid), "rows": nrows})
    return res

# ------------------------------------------------------------------ C10
def fsm_sequences(res, wd, maxlen):
    r = tlc("DirectiveFSM", f"DirectiveFSM_{maxlen}.cfg", {}, wd, workers=4, timeout=900, extra=["-coverage", "1"])
    res.add_tlc(r)
    if not r["ok"]: raise ToolError("DirectiveFSM: an invariant of the automaton itself fails:\n" + r["out"][-2000:])
    seqs = []
    for line in r["out"].splitlines():
        m = re.match(r'^<<"SEQ", (".*"), "([A-Za-z]+)", (TRUE|FALSE)>>$', line.strip())
        if m: seqs.append((json.loads(tla_unquote(m.group(1))), m.group(2), m.group(3) == "TRUE"))
    return seqs

def check_C10(tier, seed):
    import docfam
    res = Result("C10", tier, seed, "exploration")
    wd = workdir("C10")
    seqs = fsm_sequences(res, wd, 3 if tier == "quick" else 4)
    insts = docfam.doc_instances(seqs, seed)
    obs = observe(insts, wd, "", seed)
    classes = {}; drift = 0; kinds = set()
    for inst, o in zip(insts, obs):
        c = o["compile"]; cls = inst["cls"]
        tags = set()
        if cls.get("retransform") or "@transform(op: \"count\") @transform" in inst["text"]: tags.add("retransform")
        if re.search(r"\(min: \[?[A-Z]+\]?\)|min: FOO", inst["text"]): tags.add("enum_literal_parameter")
        if re.match(r"^\s*(query|mutation|subscription)?\s*\w*\s*\{.*\}\s*(query|mutation|subscription|\{)", inst["text"], re.S) and inst["text"].count("query A") + inst["text"].count("} {") >= 1: tags.add("two_operations")
        kind = "ok" if c["t"] == "ok" else ("panic" if c["t"] == "panic" else (c.get("dbg", "?").split("(")[0].split(" ")[0]))
        kinds.add(kind)
        classes[cls["family"] + ":" + kind] = classes.get(cls["family"] + ":" + kind, 0) + 1
        if c["t"] == "panic":
            res.violation(f"the frontend panicked: {c['err'][:200]} on document {inst['text']!r}", text=c["err"], tags=tags, replay={"text": inst["text"], "cls": cls}); continue
        if c["t"] == "ok" and o.get("exec", {}).get("t") == "panic":
            res.drift.append(f"accepted document panics at execution (C09's business): {inst['text'][:100]!r}: {o['exec']['err'][:100]}")
        if cls["family"] == "dirseq":
            parse_err = c["t"] != "ok" and c.get("dbg", "").startswith("ParseError(")
            if (cls["predicted"] != "ok") != parse_err and not (cls["predicted"] == "ok" and c["t"] != "ok"):
                drift += 1
                if drift <= 3: res.drift.append(f"DirectiveFSM predicts {cls['predicted']} for {cls['seq']} at {cls['pos']}, frontend says {c.get('dbg', c['t'])[:80]}")
        if c["t"] != "ok" and len(res.cov["samples"]) < 5 and cls["family"] != "dirseq": res.sample({"document": inst["text"][:160], "outcome": c.get("dbg", "")[:100]})
    res.cov["evaluations"] = len(insts)
    res.cov["distinct_nontrivial"] = sum(1 for k in classes)
    res.cov["rule"] = (f"every directive sequence of length <= {3 if tier == 'quick' else 4} that spec/DirectiveFSM.tla reaches (TLC enumerates the automaton and checks its invariants), rendered on an edge field, a property field and the root field; "
                       f"{len(docfam.MALFORMED)} malformed single directives at two positions; {len(docfam.SHAPES)} document shapes (operations, fragments, variable definitions, root selections, inline fragments, aliases, unterminated text); "
                       f"{len(docfam.PARAMS)} edge-parameter literals at three positions; each parsed by the real frontend under catch_unwind. distinct non-trivial = distinct (family, outcome kind) classes observed")
    res.notes.update({"sequences": len(seqs), "outcome_classes": classes, "fsm_mismatches": drift})
    res.assumptions += ["below GraphQL token level (arbitrary bytes) is async-graphql-parser's territory and not enumerated"]
    return res
