"""Schema-level properties: C19 (schema validation), C20 (introspection), C25 (adapter invariant checker), C10 (frontend never panics)."""
import json, os, re
from vlib import *
import lib as G
import props

def vmap(fn, items, wd, tag):
    ip, op = os.path.join(wd, f"{tag}.in.ndjson"), os.path.join(wd, f"{tag}.out.ndjson")
    write_ndjson(ip, items); vh(["map", fn, ip, op]); return read_ndjson(op)

# ------------------------------------------------------------------ C19
PANIC_CLASSES = [  # structural predicates for the known finding D13 (malformed documents that should be typed errors)
    ("two_schema_blocks", lambda d: d["nschema"] >= 2), ("no_schema_block", lambda d: d["nschema"] == 0),
    ("query_type_undefined", lambda d: d["nschema"] == 1 and d["query"] not in [t["name"] for t in d["types"]]),
    ("query_type_is_interface", lambda d: any(t["name"] == d["query"] and t["kind"] == "interface" for t in d["types"])),
    ("builtin_scalar_redefined", lambda d: bool(set(d["scalars"] + [t["name"] for t in d["types"]]) & {"Int", "Float", "String", "Boolean", "ID"})),
    ("duplicate_scalar_or_directive", lambda d: len(set(d["scalars"])) < len(d["scalars"]) or len(set(d["dirs"])) < len(d["dirs"])),
    ("enum_default_value", lambda d: any(p["hasDefault"] and p["default"]["k"] == "enum" for t in d["types"] for f in t["fields"] for p in f["params"])),
    ("list_depth_over_30", lambda d: any(len(f["ty"]["mods"]) > 31 for t in d["types"] for f in t["fields"])),
]
def check_C19(tier, seed):
    import schemafam
    res = Result("C19", tier, seed, "model_checking")
    wd = workdir("C19")
    docs = schemafam.schema_docs(tier)
    outs = vmap("schema", [{"id": d["id"], "sdl": d["sdl"]} for d in docs], wd, "schemas")
    jin = [{"id": d["id"], "doc": d["abs"], "outcome": o["outcome"]} for d, o in zip(docs, outs)]
    p = os.path.join(wd, "judge.ndjson"); write_ndjson(p, jin)
    r = tlc("JudgeSchema", "JudgeSchema.cfg", {"INST": p}, wd, workers=NCPU, timeout=3000)
    res.add_tlc(r)
    verd = {iid: (cls, rest) for iid, cls, rest in parse_verdicts(r["out"])}
    if len(verd) != len(docs): raise ToolError(f"JudgeSchema: {len(verd)} verdicts for {len(docs)} documents\n" + r["out"][-2000:])
    nvalid = ninvalid = 0; rules = {}
    for d, o in zip(docs, outs):
        cls, rest = verd[d["id"]]; broken = json.loads(tla_unquote(rest))
        tags = {n for n, pred in PANIC_CLASSES if pred(d["doc"])}
        for b in broken: rules[b] = rules.get(b, 0) + 1
        if o["outcome"] == "panic":
            res.violation(f"Schema::parse panicked on mutation '{d['label']}': {o['text'][:200]}", text=o["text"], tags=tags, replay={"label": d["label"], "sdl": d["sdl"], "specification": broken}); continue
        if cls == "valid":
            nvalid += 1
            if o["outcome"] != "ok":
                res.violation(f"a schema that satisfies every documented rule was rejected (mutation '{d['label']}'): {o['text'][:300]}", text="rejected-valid " + ",".join(o["variants"]), tags=tags, replay={"label": d["label"], "sdl": d["sdl"], "engine": o})
            elif d["label"] != "identity": res.sample({"mutation": d["label"], "verdict": "valid, accepted"}, cap=2)
        else:
            ninvalid += 1
            if o["outcome"] == "ok":
                res.violation(f"a schema that breaks {broken} was accepted (mutation '{d['label']}')", text="accepted-invalid " + ",".join(broken), tags=tags, replay={"label": d["label"], "sdl": d["sdl"], "specification": broken})
            else: res.sample({"mutation": d["label"], "specification_breaks": broken, "engine_error": o["variants"]}, cap=5)
    res.cov["evaluations"] = len(docs)
    res.cov["distinct_nontrivial"] = ninvalid
    res.cov["exhaustive"] = tier != "quick"
    res.cov["rule"] = ("a valid base schema (two-level interface chain, parameterised edges with defaults, list and scalar properties, custom scalar) and every single mutation of gen/schemafam.py's catalogue (thorough: every pair), "
                       "covering each validity rule in both directions plus duplicate / malformed blocks; each document is rendered to SDL, given to the real Schema::parse under catch_unwind, and judged by TLC against Schema!ValidSchema. "
                       "distinct non-trivial = documents the specification rejects")
    res.notes.update({"valid_documents": nvalid, "invalid_documents": ninvalid, "rules_broken": rules})
    return res

# ------------------------------------------------------------------ C20
IQ = {
 "types": '{ VertexType { name @output is_interface @output } }',
 "schema_types": '{ Schema { vertex_type { name @output } } }',
 "implements": '{ VertexType { name @output(name: "t") implements { name @output(name: "i") } } }',
 "implementer": '{ VertexType { name @output(name: "t") implementer { name @output(name: "s") } } }',
 "properties": '{ VertexType { name @output(name: "t") property { name @output(name: "p") type @output(name: "ty") } } }',
 "edges": '{ VertexType { name @output(name: "t") edge { name @output(name: "e") to_many @output at_least_one @output target { name @output(name: "target") } } } }',
 "params": '{ VertexType { name @output(name: "t") edge { name @output(name: "e") parameter { name @output(name: "p") type @output(name: "ty") default @output(name: "d") } } } }',
 "entrypoints": '{ Entrypoint { name @output(name: "e") to_many @output at_least_one @output target { name @output(name: "target") } } }',
 "schema_entrypoints": '{ Schema { entrypoint { name @output(name: "e") } } }',
 "entry_params": '{ Entrypoint { name @output(name: "e") parameter { name @output(name: "p") type @output(name: "ty") default @output(name: "d") } } }',
}
def json_to_value(x):
    if x is None: return G.NULL
    if isinstance(x, bool): return G.B(x)
    if isinstance(x, int): return G.I(x) if x < (1 << 63) else G.U(x)
    if isinstance(x, float): return G.F2(int(x * 2))
    if isinstance(x, str): return G.S(x)
    if isinstance(x, list): return G.L([json_to_value(y) for y in x])
    return {"k": "other"}
def default_cell(v):
    """the `default` output: a JSON text or null -> some(value) / none"""
    if v["k"] == "null": return {"k": "none", "v": G.NULL}
    try: return {"k": "some", "v": json_to_value(json.loads("".join(v["v"])))}
    except Exception: return {"k": "some", "v": {"k": "other"}}

def check_C20(tier, seed):
    import schemafam
    res = Result("C20", tier, seed, "model_checking")
    wd = workdir("C20")
    docs = schemafam.schema_docs(tier)
    ok = vmap("schema", [{"id": d["id"], "sdl": d["sdl"]} for d in docs], wd, "schemas")
    valid = [d for d, o in zip(docs, ok) if o["outcome"] == "ok"]
    if tier != "quick": valid = valid[:400]
    # plus filtered lookups that go through the adapter's own use of the hints (Single / Multiple candidates)
    outs = vmap("introspect", [{"id": d["id"], "sdl": d["sdl"], "queries": [[k, v] for k, v in IQ.items()]} for d in valid], wd, "intro")
    cases = []; owner = []
    for d, o in zip(valid, outs):
        if o["t"] != "ok":
            res.violation(f"introspection of a valid schema (mutation '{d['label']}') failed: {o['t']} {o['err'][:200]}", text=o["err"], replay={"label": d["label"], "sdl": d["sdl"]}); continue
        for q in IQ:
            rows = o["res"][q]
            if q in ("params", "entry_params"): rows = [[[n, default_cell(v) if n == "d" else v] for n, v in r] for r in rows]
            cases.append({"id": len(cases) + 1, "doc": d["abs"], "q": q, "rows": rows}); owner.append(d)
    p = os.path.join(wd, "judge.ndjson"); write_ndjson(p, cases)
    r = tlc("JudgeIntrospect", "JudgeIntrospect.cfg", {"INST": p}, wd, workers=NCPU, timeout=3000)
    res.add_tlc(r)
    verd = {iid: (cls, rest) for iid, cls, rest in parse_verdicts(r["out"])}
    if len(verd) != len(cases): raise ToolError(f"JudgeIntrospect: {len(verd)} verdicts for {len(cases)} cases\n" + r["out"][-2500:])
    nrows = 0; distinct = set()
    for c, d in zip(cases, owner):
        cls, rest = verd[c["id"]]; nrows += len(c["rows"])
        distinct.add((c["q"], json.dumps(c["rows"], sort_keys=True)))
        if cls == "C20.bad":
            res.violation(f"introspection query '{c['q']}' on schema mutation '{d['label']}' reports {len(c['rows'])} rows that differ from the schema's contents", text="introspect " + c["q"], tags={"query:" + c["q"]},
                          replay={"label": d["label"], "sdl": d["sdl"], "query": IQ[c["q"]], "rows": c["rows"], "expected": json.loads(tla_unquote(rest))})
        elif c["rows"] and d["label"] != "identity": res.sample({"schema_mutation": d["label"], "query": c["q"], "rows": len(c["rows"])}, cap=4)
    # the introspection adapter itself honours the adapter contract (the repository's own invariant checker)
    inv = vmap("introspect_invariants", [{"id": d["id"], "sdl": d["sdl"]} for d in valid[:6]], wd, "inv")
    for d, o in zip(valid, inv):
        if o["t"] != "ok": res.violation(f"check_adapter_invariants fails for SchemaAdapter over schema '{d['label']}': {o.get('err', '')[:300]}", text=o.get("err", ""), replay={"label": d["label"], "sdl": d["sdl"]})
    res.cov["evaluations"] = len(cases)
    res.cov["distinct_nontrivial"] = len(distinct)
    res.cov["rule"] = ("every schema of the mutant family that the real Schema::parse accepts; ten fixed introspection queries (vertex types and interface flags, implements, implementer, properties with type text, edges with target / to_many / at_least_one, "
                       "edge parameters with type text and JSON default, entrypoints and their parameters, the same through the Schema vertex) run through the real SchemaAdapter; TLC compares each row bag with Introspect!Expected derived from the abstract document. "
                       "distinct non-trivial = distinct (query, result) pairs")
    res.notes.update({"schemas": len(valid), "rows": nrows})
    return res
