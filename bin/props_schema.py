"""Schema-level properties: C19 (schema validation), C20 (introspection), C25 (adapter invariant checker), C10 (frontend never panics)."""
import json, os, re
from vlib import *
import lib as G
import props

def vmap(fn, items, wd, tag):
    ip, op = os.path.join(wd, f"{tag}.in.ndjson"), os.path.join(wd, f"{tag}.out.ndjson")
    write_ndjson(ip, items); vh(["map", fn, ip, op]); return read_ndjson(op)

# ------------------------------------------------------------------ C19
PANIC_CLASSES = [  # structural predicates for the known finding D13 (malformed documents that should be typed errors)
    ("two_schema_blocks", lambda d: d["nschema"] >= 2), ("no_schema_block", lambda d: d["nschema"] == 0),
    ("query_type_undefined", lambda d: d["nschema"] == 1 and d["query"] not in [t["name"] for t in d["types"]]),
    ("query_type_is_interface", lambda d: any(t["name"] == d["query"] and t["kind"] == "interface" for t in d["types"])),
    ("builtin_scalar_redefined", lambda d: bool(set(d["scalars"] + [t["name"] for t in d["types"]]) & {"Int", "Float", "String", "Boolean", "ID"})),
    ("duplicate_scalar_or_directive", lambda d: len(set(d["scalars"])) < len(d["scalars"]) or len(set(d["dirs"])) < len(d["dirs"])),
    ("enum_default_value", lambda d: any(p["hasDefault"] and p["default"]["k"] == "enum" for t in d["types"] for f in t["fields"] for p in f["params"])),
    ("list_depth_over_30", lambda d: any(len(f["ty"]["mods"]) > 31 for t in d["types"] for f in t["fields"])),
]
def check_C19(tier, seed):
    import schemafam
    res = Result("C19", tier, seed, "model_checking")
    wd = workdir("C19")
    docs = schemafam.schema_docs(tier)
    outs = vmap("schema", [{"id": d["id"], "sdl": d["sdl"]} for d in docs], wd, "schemas")
    jin = [{"id": d["id"], "doc": d["abs"], "outcome": o["outcome"]} for d, o in zip(docs, outs)]
    p = os.path.join(wd, "judge.ndjson"); write_ndjson(p, jin)
    r = tlc("JudgeSchema", "JudgeSchema.cfg", {"INST": p}, wd, workers=NCPU, timeout=3000)
    res.add_tlc(r)
    verd = {iid: (cls, rest) for iid, cls, rest in parse_verdicts(r["out"])}
    if len(verd) != len(docs): raise ToolError(f"JudgeSchema: {len(verd)} verdicts for {len(docs)} documents\n" + r["out"][-2000:])
    nvalid = ninvalid = 0; rules = {}
    for d, o in zip(docs, outs):
        cls, rest = verd[d["id"]]; broken = json.loads(tla_unquote(rest))
        tags = {n for n, pred in PANIC_CLASSES if pred(d["doc"])}
        for b in broken: rules[b] = rules.get(b, 0) + 1
        if o["outcome"] == "panic":
            res.violation(f"Schema::parse panicked on mutation '{d['label']}': {o['text'][:200]}", text=o["text"], tags=tags, replay={"label": d["label"], "sdl": d["sdl"], "specification": broken}); continue
        if cls == "valid":
            nvalid += 1
            if o["outcome"] != "ok":
                res.violation(f"a schema that satisfies every documented rule was rejected (mutation '{d['label']}'): {o['text'][:300]}", text="rejected-valid " + ",".join(o["variants"]), tags=tags, replay={"label": d["label"], "sdl": d["sdl"], "engine": o})
            elif d["label"] != "identity": res.sample({"mutation": d["label"], "verdict": "valid, accepted"}, cap=2)
        else:
            ninvalid += 1
            if o["outcome"] == "ok":
                res.violation(f"a schema that breaks {broken} was accepted (mutation '{d['label']}')", text="accepted-invalid " + ",".join(broken), tags=tags, replay={"label": d["label"], "sdl": d["sdl"], "specification": broken})
            else: res.sample({"mutation": d["label"], "specification_breaks": broken, "engine_error": o["variants"]}, cap=5)
    res.cov["evaluations"] = len(docs)
    res.cov["distinct_nontrivial"] = ninvalid
    res.cov["exhaustive"] = tier != "quick"
    res.cov["rule"] = ("a valid base schema (two-level interface chain, parameterised edges with defaults, list and scalar properties, custom scalar) and every single mutation of gen/schemafam.py's catalogue (thorough: every pair), "
                       "covering each validity rule in both directions plus duplicate / malformed blocks; each document is rendered to SDL, given to the real Schema::parse under catch_unwind, and judged by TLC against Schema!ValidSchema. "
                       "distinct non-trivial = documents the specification rejects")
    res.notes.update({"valid_documents": nvalid, "invalid_documents": ninvalid, "rules_broken": rules})
    return res

# ------------------------------------------------------------------ C20
IQ = {
 "types": '{ VertexType { name @output is_interface @output } }',
 "schema_types": '{ Schema { vertex_type { name @output } } }',
 "implements": '{ VertexType { name @output(name: "t") implements { name @output(name: "i") } } }',
 "implementer": '{ VertexType { name @output(name: "t") implementer { name @output(name: "s") } } }',
 "properties": '{ VertexType { name @output(name: "t") property { name @output(name: "p") type @output(name: "ty") } } }',
 "edges": '{ VertexType { name @output(name: "t") edge { name @output(name: "e") to_many @output at_least_one @output target { name @output(name: "target") } } } }',
 "params": '{ VertexType { name @output(name: "t") edge { name @output(name: "e") parameter { name @output(name: "p") type @output(name: "ty") default @output(name: "d") } } } }',
 "entrypoints": '{ Entrypoint { name @output(name: "e") to_many @output at_least_one @output target { name @output(name: "target") } } }',
 "schema_entrypoints": '{ Schema { entrypoint { name @output(name: "e") } } }',
 "entry_params": '{ Entrypoint { name @output(name: "e") parameter { name @output(name: "p") type @output(name: "ty") default @output(name: "d") } } }',
}
def json_to_value(x):
    if x is None: return G.NULL
    if isinstance(x, bool): return G.B(x)
    if isinstance(x, int): return G.I(x) if x < (1 << 63) else G.U(x)
    if isinstance(x, float): return G.F2(int(x * 2))
    if isinstance(x, str): return G.S(x)
    if isinstance(x, list): return G.L([json_to_value(y) for y in x])
    return {"k": "other"}
def default_cell(v):
    """the `default` output: a JSON text or null -> some(value) / none"""
    if v["k"] == "null": return {"k": "none", "v": G.NULL}
    try: return {"k": "some", "v": json_to_value(json.loads("".join(v["v"])))}
    except Exception: return {"k": "some", "v": {"k": "other"}}

def check_C20(tier, seed):
    import schemafam
    res = Result("C20", tier, seed, "model_checking")
    wd = workdir("C20")
    docs = schemafam.schema_docs(tier)
    ok = vmap("schema", [{"id": d["id"], "sdl": d["sdl"]} for d in docs], wd, "schemas")
    valid = [d for d, o in zip(docs, ok) if o["outcome"] == "ok"]
    if tier != "quick": valid = valid[:400]
    # plus filtered lookups that go through the adapter's own use of the hints (Single / Multiple candidates)
    outs = vmap("introspect", [{"id": d["id"], "sdl": d["sdl"], "queries": [[k, v] for k, v in IQ.items()]} for d in valid], wd, "intro")
    cases = []; owner = []
    for d, o in zip(valid, outs):
        if o["t"] != "ok":
            res.violation(f"introspection of a valid schema (mutation '{d['label']}') failed: {o['t']} {o['err'][:200]}", text=o["err"], replay={"label": d["label"], "sdl": d["sdl"]}); continue
        for q in IQ:
            rows = o["res"][q]
            if q in ("params", "entry_params"): rows = [[[n, default_cell(v) if n == "d" else v] for n, v in r] for r in rows]
            cases.append({"id": len(cases) + 1, "doc": d["abs"], "q": q, "rows": rows}); owner.append(d)
    p = os.path.join(wd, "judge.ndjson"); write_ndjson(p, cases)
    r = tlc("JudgeIntrospect", "JudgeIntrospect.cfg", {"INST": p}, wd, workers=NCPU, timeout=3000)
    res.add_tlc(r)
    verd = {iid: (cls, rest) for iid, cls, rest in parse_verdicts(r["out"])}
    if len(verd) != len(cases): raise ToolError(f"JudgeIntrospect: {len(verd)} verdicts for {len(cases)} cases\n" + r["out"][-2500:])
    nrows = 0; distinct = set()
    for c, d in zip(cases, owner):
        cls, rest = verd[c["id"]]; nrows += len(c["rows"])
        distinct.add((c["q"], json.dumps(c["rows"], sort_keys=True)))
        if cls == "C20.bad":
            res.violation(f"introspection query '{c['q']}' on schema mutation '{d['label']}' reports {len(c['rows'])} rows that differ from the schema's contents", text="introspect " + c["q"], tags={"query:" + c["q"]},
                          replay={"label": d["label"], "sdl": d["sdl"], "query": IQ[c["q"]], "rows": c["rows"], "expected": json.loads(tla_unquote(rest))})
        elif c["rows"] and d["label"] != "identity": res.sample({"schema_mutation": d["label"], "query": c["q"], "rows": len(c["rows"])}, cap=4)
    # the introspection adapter itself honours the adapter contract (the repository's own invariant checker)
    inv = vmap("introspect_invariants", [{"id": d["id"], "sdl": d["sdl"]} for d in valid[:6]], wd, "inv")
    for d, o in zip(valid, inv):
        if o["t"] != "ok": res.violation(f"check_adapter_invariants fails for SchemaAdapter over schema '{d['label']}': {o.get('err', '')[:300]}", text=o.get("err", ""), replay={"label": d["label"], "sdl": d["sdl"]})
    res.cov["evaluations"] = len(cases)
    res.cov["distinct_nontrivial"] = len(distinct)
    res.cov["rule"] = ("every schema of the mutant family that the real Schema::parse accepts; ten fixed introspection queries (vertex types and interface flags, implements, implementer, properties with type text, edges with target / to_many / at_least_one, "
                       "edge parameters with type text and JSON default, entrypoints and their parameters, the same through the Schema vertex) run through the real SchemaAdapter; TLC compares each row bag with Introspect!Expected derived from the abstract document. "
                       "distinct non-trivial = distinct (query, result) pairs")
    res.notes.update({"schemas": len(valid), "rows": nrows})
    return res

# ------------------------------------------------------------------ C10
def fsm_sequences(res, wd, maxlen):
    r = tlc("DirectiveFSM", f"DirectiveFSM_{maxlen}.cfg", {}, wd, workers=4, timeout=900, extra=["-coverage", "1"])
    res.add_tlc(r)
    if not r["ok"]: raise ToolError("DirectiveFSM: an invariant of the automaton itself fails:\n" + r["out"][-2000:])
    seqs = []
    for line in r["out"].splitlines():
        m = re.match(r'^<<"SEQ", (".*"), "([A-Za-z]+)", (TRUE|FALSE)>>$', line.strip())
        if m: seqs.append((json.loads(tla_unquote(m.group(1))), m.group(2), m.group(3) == "TRUE"))
    return seqs

def check_C10(tier, seed):
    import docfam
    res = Result("C10", tier, seed, "exploration")
    wd = workdir("C10")
    seqs = fsm_sequences(res, wd, 3 if tier == "quick" else 4)
    insts = docfam.doc_instances(seqs, seed)
    # "any query string" includes the well-formed ones: the random / systematic universe of valid-looking queries (variables shared between
    # filters, tags, folds, recursion, coercions) goes through the same frontend under catch_unwind
    import universe
    rnd = universe.semantic_universe(tier, seed + 1000)
    for x in rnd: x["cls"] = dict(x.get("cls") or {}, family="valid_" + str((x.get("cls") or {}).get("family", "random")))
    mut = universe.mutated_universe(tier, seed + 1000)
    insts = universe.renumber(insts + rnd + mut)
    obs = observe(insts, wd, "", seed)
    classes = {}; drift = 0; kinds = set()
    for inst, o in zip(insts, obs):
        c = o["compile"]; cls = inst["cls"]
        tags = set()
        if cls.get("retransform") or "@transform(op: \"count\") @transform" in inst["text"]: tags.add("retransform")
        if re.search(r"\(min: \[?[A-Z]+\]?\)|min: FOO", inst["text"]): tags.add("enum_literal_parameter")
        if re.match(r"^\s*(query|mutation|subscription)?\s*\w*\s*\{.*\}\s*(query|mutation|subscription|\{)", inst["text"], re.S) and inst["text"].count("query A") + inst["text"].count("} {") >= 1: tags.add("two_operations")
        kind = "ok" if c["t"] == "ok" else ("panic" if c["t"] == "panic" else (c.get("dbg", "?").split("(")[0].split(" ")[0]))
        kinds.add(kind)
        classes[cls["family"] + ":" + kind] = classes.get(cls["family"] + ":" + kind, 0) + 1
        if c["t"] == "panic":
            res.violation(f"the frontend panicked: {c['err'][:200]} on document {inst['text']!r}", text=c["err"], tags=tags, replay={"text": inst["text"], "cls": cls}); continue
        if c["t"] == "ok" and o.get("exec", {}).get("t") == "panic":
            res.drift.append(f"accepted document panics at execution (C09's business): {inst['text'][:100]!r}: {o['exec']['err'][:100]}")
        if cls["family"] == "dirseq":
            parse_err = c["t"] != "ok" and c.get("dbg", "").startswith("ParseError(")
            if (cls["predicted"] != "ok") != parse_err and not (cls["predicted"] == "ok" and c["t"] != "ok"):
                drift += 1
                if drift <= 3: res.drift.append(f"DirectiveFSM predicts {cls['predicted']} for {cls['seq']} at {cls['pos']}, frontend says {c.get('dbg', c['t'])[:80]}")
        if c["t"] != "ok" and len(res.cov["samples"]) < 5 and cls["family"] != "dirseq": res.sample({"document": inst["text"][:160], "outcome": c.get("dbg", "")[:100]})
    # the frontend-validity model: spec/Frontend.tla predicts, from the source AST alone, acceptance or the set of error kinds
    from props_engine import judge
    mo = [(i, o) for i, o in zip(insts, obs) if str(i["cls"]["family"]) == "mutated" or str(i["cls"]["family"]).startswith("valid_")]
    ji = [{k: i[k] for k in ("id", "schema", "q", "args")} for i, _ in mo]
    jo = [{"id": i["id"], "t": o["compile"]["t"], "kinds": o["compile"].get("kinds", [])} for i, o in mo]
    fv = judge(res, "JudgeFrontend", ji, jo, wd, "fe")
    fe = {"accept": 0, "reject": 0, "skip": 0, "bad": 0}; fekinds = {}
    for inst, o in mo:
        v = fv[inst["id"]]
        for k in set(o["compile"].get("kinds", [])): fekinds[k] = fekinds.get(k, 0) + 1
        for c in v: fe[c.split(".")[1]] += 1
        if "fe.bad" in v and o["compile"]["t"] != "panic":
            d = json.loads(tla_unquote(v["fe.bad"]))
            res.drift.append(f"Frontend.tla predicts {sorted(d['want']) or 'acceptance'}, the frontend answered {sorted(d['got']) or 'acceptance'} for {inst['text'][:300]!r}")
    res.notes.update({"frontend_model": fe, "frontend_error_kinds_seen": fekinds})
    res.cov["evaluations"] = len(insts)
    res.cov["distinct_nontrivial"] = sum(1 for k in classes)
    res.cov["rule"] = (f"every directive sequence of length <= {3 if tier == 'quick' else 4} that spec/DirectiveFSM.tla reaches (TLC enumerates the automaton and checks its invariants), rendered on an edge field, a property field and the root field; "
                       f"{len(docfam.MALFORMED)} malformed single directives at two positions; {len(docfam.SHAPES)} document shapes (operations, fragments, variable definitions, root selections, inline fragments, aliases, unterminated text); "
                       f"{len(docfam.PARAMS)} edge-parameter literals at three positions; {len(rnd)} well-formed queries of the semantic universe (random with shared variables, recursion / tag / hint / fold families); and the same number of near-valid mutated queries (gen/badq.py: 24 targeted mutations); each parsed by the real frontend under catch_unwind. For the random and mutated queries spec/Frontend.tla (a phase-by-phase model of validation.rs / mod.rs / filters.rs / tags.rs) predicts acceptance or the exact set of error kinds, judged by TLC (JudgeFrontend; a disagreement that is not a panic is reported as model drift, not as a violation of this property). distinct non-trivial = distinct (family, outcome kind) classes observed")
    res.notes.update({"sequences": len(seqs), "outcome_classes": classes, "fsm_mismatches": drift})
    res.assumptions += ["below GraphQL token level (arbitrary bytes) is async-graphql-parser's territory and not enumerated"]
    return res

# ------------------------------------------------------------------ C25
def sites_of(doc):
    """every resolver site of a schema document (python enumeration of the fault space; which of them are probed is Checker.tla's business)"""
    names = {t["name"] for t in doc["types"]}
    out = []
    for t in doc["types"]:
        if t["name"] == doc["query"]: continue
        for f in t["fields"]:
            if f["ty"]["base"] in names: out.append(("nbrs", t["name"], f["name"]))
            else: out.append(("prop", t["name"], f["name"]))
        out.append(("prop", t["name"], "__typename"))
        for i in t["implements"]:
            if i in names: out.append(("coerce", i, t["name"]))
    return out

def check_C25(tier, seed):
    import schemafam, copy
    res = Result("C25", tier, seed, "fault_enumeration")
    wd = workdir("C25")
    docs = schemafam.schema_docs("quick")
    # schemas: the valid members of the family, plus one with edges that take required parameters (documented as unchecked)
    extra = schemafam.base_doc()
    schemafam.T_(extra, "B")["fields"].append(schemafam.field("need", "[A!]", [schemafam.param("k", "Int!")]))
    schemafam.T_(extra, "B")["fields"].append(schemafam.field("need2", "A", [schemafam.param("k", "Int!", G.I(3)), schemafam.param("s", "String!")]))
    schemafam.T_(extra, "B")["fields"].append(schemafam.field("fine", "A", [schemafam.param("k", "Int!", G.I(3)), schemafam.param("s", "String")]))
    # vertex types WITHOUT declared properties (only edges; only `__typename` to resolve): an object type and an interface with an implementer
    extra["types"].append(schemafam.vtype("Hub", "type", [], [schemafam.field("item", "[A!]"), schemafam.field("hub", "Hub")]))
    extra["types"].append(schemafam.vtype("Linked", "interface", [], [schemafam.field("to", "[Linked!]")]))
    extra["types"].append(schemafam.vtype("Chain", "type", ["Linked"], [schemafam.field("to", "[Linked!]")]))
    docs.append({"id": len(docs) + 1, "label": "required_parameters", "doc": extra, "sdl": schemafam.render(extra), "abs": schemafam.abstract(extra)})
    ok = vmap("schema", [{"id": d["id"], "sdl": d["sdl"]} for d in docs], wd, "schemas")
    valid = [d for d, o in zip(docs, ok) if o["outcome"] == "ok"]
    if tier == "quick": valid = [d for d in valid if d["label"] in ("identity", "required_parameters", "diamond_common_origin_ok", "inherited_edge_to_subtype_ok", "nested_list_property_ok")]
    modes = ["wrong", "reorder"] if tier == "quick" else ["wrong", "reorder", "reverse", "drop", "dup"]
    jobs = []
    for d in valid:
        faults = [{"kind": k, "ty": t, "field": f, "mode": m} for (k, t, f) in sites_of(d["doc"]) for m in modes]
        jobs.append({"id": d["id"], "sdl": d["sdl"], "faults": faults})
    outs = vmap("checker", jobs, wd, "checker")
    cases = []; owner = []
    for d, job, o in zip(valid, jobs, outs):
        if o["t"] != "ok": raise ToolError(f"checker harness failed on {d['label']}: {o}")
        if o["clean"]["panicked"]:
            res.violation(f"check_adapter_invariants fails for a contract-abiding adapter over schema '{d['label']}': {o['clean']['msg']}", text=o["clean"]["msg"], replay={"label": d["label"], "sdl": d["sdl"]})
        for f, r in zip(job["faults"], o["results"]):
            cases.append({"id": len(cases) + 1, "doc": d["abs"], "site": {"kind": f["kind"], "ty": list(f["ty"]), "field": list(f["field"])}, "mode": f["mode"], "panicked": r["panicked"]})
            owner.append((d, f, r))
    p = os.path.join(wd, "judge.ndjson"); write_ndjson(p, cases)
    r = tlc("Checker", "Checker.cfg", {"INST": p}, wd, workers=NCPU, timeout=3000)
    res.add_tlc(r)
    verd = {iid: (cls, rest) for iid, cls, rest in parse_verdicts(r["out"])}
    if len(verd) != len(cases): raise ToolError(f"Checker: {len(verd)} verdicts for {len(cases)} cases\n" + r["out"][-2500:])
    det = unp = 0
    for c, (d, f, rr) in zip(cases, owner):
        cls, rest = verd[c["id"]]
        if cls == "C25.bad":
            if rr["panicked"]: res.drift.append(f"fault {f} on '{d['label']}' was caught although Checker.tla says the site is not probed")
            else: res.violation(f"the invariant checker did not catch a '{f['mode']}' fault injected into {f['kind']}({f['ty']}, {f['field']}) on schema '{d['label']}' although that site is in its documented probe set",
                                text="undetected-fault", tags={"mode:" + f["mode"], "kind:" + f["kind"]}, replay={"label": d["label"], "sdl": d["sdl"], "fault": f})
        elif cls == "C25.nosite": res.drift.append(f"site {f} is not a site of '{d['label']}' according to Checker.tla")
        elif cls == "C25.detected":
            det += 1
            if len(res.cov["samples"]) < 3: res.sample({"schema": d["label"], "fault": f, "checker_says": rr["msg"][:140]})
        else:
            unp += 1
            if unp <= 2: res.sample({"schema": d["label"], "fault": f, "outcome": "not detected - documented limitation (edge with a required parameter without default)"}, cap=6)
    res.cov["evaluations"] = len(cases) + len(valid)
    res.cov["distinct_nontrivial"] = det
    res.cov["exhaustive"] = True
    res.cov["rule"] = (f"for each of {len(valid)} valid schemas: the contract-abiding generic adapter must pass, and one fault (modes {modes}: a non-null property / a neighbour / a true coercion for a context without an active vertex; swapping, "
                       "reversing, dropping or duplicating contexts) injected at every resolver site (every property incl. __typename, every edge, every interface->implementer coercion) must make the real check_adapter_invariants panic "
                       "exactly when Checker.tla says the site is in the documented probe set. distinct non-trivial = faults detected")
    res.notes.update({"schemas": len(valid), "faults": len(cases), "detected": det, "undetected_at_documented_unprobed_sites": unp})
    return res
