"""C06 (candidate algebra), C17 (type lattice), C16 (round trips), C18 (row decoding)."""
import json, os
from vlib import *
import lib as G

def _must_hold(r, what):
    if not r["ok"]:
        raise ToolError(f"{what}: a law fails on the model itself (specification error, not an implementation verdict):\n" + r["out"][-3000:])

def pretty_cand(c):
    t = c.get("t")
    b = lambda x: {"unb": "*", "inc": "[" , "exc": "("}[x["t"]] + (G.pretty(x["v"]) if "v" in x else "")
    if t == "single": return f"Single({G.pretty(c['v'])})"
    if t == "multiple": return "Multiple(" + ", ".join(G.pretty(x) for x in c["vs"]) + ")"
    if t == "range": return f"Range({b(c['lo'])} .. {b(c['hi'])}{', +null' if c['nullIncl'] else ''})"
    return str(t)


def _body(path, name):
    """Text of a top-level definition `name(..) ==` up to the next blank line, whitespace-normalised."""
    import re
    s = open(path).read()
    m = re.search(r"^" + re.escape(name) + r"\([^)]*\) ==.*?(?=\n\S|\n\s*\n)", s, re.S | re.M)
    return " ".join(m.group(0).split()) if m else None

def range_laws(res, wd):
    """Unbounded companion of MC_Candidates: spec/RangeLaws.tla proves, with TLAPS and for all integers, that the transcription of the
    range arithmetic of candidates.rs is exact.  The definitions proved about must be the ones in Candidates.tla (textual comparison)."""
    import subprocess, re, shutil
    spec = os.path.join(ROOT, "spec")
    same = all(_body(os.path.join(spec, "Candidates.tla"), n) is not None and
               _body(os.path.join(spec, "Candidates.tla"), n) == _body(os.path.join(spec, "RangeLaws.tla"), n) for n in ("RangeIntersect", "Degenerate"))
    note = {"definitions_identical_to_Candidates_tla": same}
    if not same: res.drift.append("RangeLaws.tla: RangeIntersect / Degenerate differ textually from Candidates.tla - the TLAPS theorems are about other definitions")
    if shutil.which("tlapm") is None:
        note["status"] = "tlapm not installed"
    else:
        cache = os.path.join(wd, "tlaps"); os.makedirs(cache, exist_ok=True)
        try:
            r = subprocess.run(["timeout", "400", "tlapm", "--threads", "8", "--cache-dir", cache, "RangeLaws.tla"], cwd=spec, capture_output=True, text=True)
            out = r.stdout + r.stderr
            m = re.search(r"All (\d+) obligations? proved", out)
            if m: note["status"] = "proved"; note["obligations_proved"] = int(m.group(1))
            else:
                note["status"] = "incomplete"; note["tail"] = out[-600:]
                res.drift.append("RangeLaws.tla: TLAPS did not discharge every obligation (time-out or prover failure); the bounded TLC check still decides C06")
        except Exception as e:
            note["status"] = f"not run: {e}"
    note["theorems"] = ["IntersectClosed", "IntersectExactInt", "NullLaw", "DegenerateEmpty", "ExcludeExactInt", "PointRange"]
    res.notes["tlaps_range_laws_unbounded_integers"] = note

# ------------------------------------------------------------------ C06
def check_C06(tier, seed):
    res = Result("C06", tier, seed, "model_checking")
    wd = workdir("C06")
    total_pairs = 0; drift = 0; ncand = 0
    for dom in ("signed", "unsigned", "str"):
        cands = os.path.join(wd, f"cands.{dom}.json"); out = os.path.join(wd, f"res.{dom}.ndjson")
        r = tlc("MC_Candidates", "MC_Candidates.cfg", {"DOM": dom, "OUT": cands}, wd, workers=8, timeout=1200)
        res.add_tlc(r); _must_hold(r, "MC_Candidates")
        vh(["candall", cands, out])
        j = tlc("JudgeCand", "JudgeCand.cfg", {"CANDS": cands, "OBS": out}, wd, workers=8, timeout=1800)
        res.add_tlc(j)
        vs = parse_verdicts(j["out"])
        cl = json.load(open(cands)); n = len(cl["cands"]); ncand = n
        done = [v for v in vs if v[1] == "C06.done"]
        if len(done) != n: raise ToolError(f"JudgeCand({dom}): {len(done)} verdicts for {n} candidates\n" + j["out"][-2500:])
        total_pairs += n * n + n * len(cl["probes"]) + n
        for iid, cls, rest in vs:
            if cls == "C06.done": drift += int(rest or 0); continue
            d = json.loads(tla_unquote(rest))
            what = {"C06.intersect": lambda: f"intersect({pretty_cand(d['a'])}, {pretty_cand(d['b'])}) = {pretty_cand(d['got'])} does not contain exactly the common values",
                    "C06.normalize": lambda: f"normalize({pretty_cand(d['a'])}) = {pretty_cand(d['got'])} changes the contained values",
                    "C06.exclude": lambda: f"exclude({pretty_cand(d['a'])}, {G.pretty(d['v'])}) = {pretty_cand(d['got'])} is not (original minus at most that value)",
                    "C06.contains": lambda: f"contains({pretty_cand(d['a'])}, {G.pretty(d['x'])}) = {d['got']}"}[cls]()
            res.violation(f"[{dom}] {what}", text=json.dumps(d), tags={cls, dom}, replay={"domain": dom, "case": d, "kind": cls})
        if dom == "signed":
            res.cov["samples"] = [{"a": pretty_cand(cl["cands"][k]), "b": pretty_cand(cl["cands"][-1 - k]), "probes": [G.pretty(p) for p in cl["probes"]]} for k in (5, 40, 90)]
    res.cov["evaluations"] = total_pairs
    res.cov["distinct_nontrivial"] = total_pairs
    res.cov["exhaustive"] = True
    res.cov["rule"] = (f"{ncand} candidates per domain (impossible, all, singles, multiples of 2-3 values incl. null and duplicates, every range with inclusive/exclusive/unbounded bounds over 4 ordered points, "
                       "with and without null) x 3 concretisations (signed integers at i64::MIN/-1/1/i64::MAX, mixed signed/unsigned beyond i64::MAX, strings); TLC proves the transcription of candidates.rs exact on "
                       "the model, then every ordered pair / (candidate, value) is run through the real intersect / normalize / exclude_single_value / contains (via the __verif hooks) and TLC judges membership of every probe.")
    res.notes["syntactic_drift_vs_transcription"] = drift
    range_laws(res, wd)
    if drift: res.drift.append(f"{drift} implementation results differ syntactically from Candidates.tla's transcription while containing the same values")
    return res

# ------------------------------------------------------------------ C17
def run_types(res, wd):
    types = os.path.join(wd, "types.json"); out = os.path.join(wd, "types.res.ndjson")
    r = tlc("MC_Types", "MC_Types.cfg", {"OUT": types}, wd, workers=8, timeout=1200)
    res.add_tlc(r); _must_hold(r, "MC_Types")
    vh(["typeall", types, out])
    j = tlc("JudgeTypes", "JudgeTypes.cfg", {"TYPES": types, "OBS": out}, wd, workers=8, timeout=1200)
    res.add_tlc(j)
    tl = json.load(open(types))
    vs = parse_verdicts(j["out"])
    if len([v for v in vs if v[1] == "done" or v[1] == "C17.panic"]) != len(tl["types"]): raise ToolError("JudgeTypes: missing verdicts\n" + j["out"][-2500:])
    return tl, vs

def render_ty(t):
    s = t["base"]
    mods = t["mods"]
    s += "" if mods[-1] else "!"
    for n in reversed(mods[:-1]): s = "[" + s + "]" + ("" if n else "!")
    return s

def check_C17(tier, seed):
    res = Result("C17", tier, seed, "model_checking")
    wd = workdir("C17")
    tl, vs = run_types(res, wd)
    n = len(tl["types"]); nv = len(tl["values"])
    for iid, cls, rest in vs:
        if cls.startswith("C17."):
            d = json.loads(tla_unquote(rest)) if rest.strip().startswith('"') else {"raw": rest}
            res.violation(f"type operation disagrees with the lattice definition ({cls}): {json.dumps(d)[:300]}", text=json.dumps(d), tags={cls}, replay={"case": d, "kind": cls})
    res.cov["evaluations"] = 3 * n * n + n * nv
    res.cov["distinct_nontrivial"] = 3 * n * n + n * nv
    res.cov["exhaustive"] = True
    res.cov["rule"] = (f"all {n} types over 4 base names, up to 3 list levels, every nullability mask, and {nv} values up to the same nesting (spec/MC_Types.tla); TLC checks the lattice / partial-order / equivalence / "
                       "monotonicity laws on all pairs and triples of the model, then every ordered pair goes through the real intersect, is_scalar_only_subtype, equal_ignoring_nullability and every (type, value) through is_valid_value; TLC judges each reply")
    res.cov["samples"] = [{"a": render_ty(tl["types"][k]), "b": render_ty(tl["types"][(7 * k) % len(tl["types"])])} for k in (3, 17, 44)]
    return res

# ------------------------------------------------------------------ C16
def check_C16(tier, seed):
    import universe, props
    res = Result("C16", tier, seed, "exploration")
    wd = workdir("C16")
    # (a) types: text form and serde round trips, judged by TLC against Types!Render
    tl, vs = run_types(res, wd)
    for iid, cls, rest in vs:
        if cls.startswith("C16."):
            d = json.loads(tla_unquote(rest))
            res.violation(f"type does not survive {'rendering and parsing' if cls == 'C16.typetext' else 'serde round trip'}: {json.dumps(d)[:200]}", text=json.dumps(d), tags={cls}, replay={"case": d})
    ntypes = len(tl["types"])
    # (a') types up to the maximum list depth (30 levels): a sample of depths x nullability patterns through the same judge
    deep = []
    for d in (4, 5, 8, 15, 16, 17, 20, 24, 29, 30):
        for pat in ("nullable", "nonnull", "alternate", "outer_nonnull", "inner_nonnull"):
            mods = {"nullable": [True] * (d + 1), "nonnull": [False] * (d + 1), "alternate": [k % 2 == 0 for k in range(d + 1)],
                    "outer_nonnull": [False] + [True] * d, "inner_nonnull": [True] * d + [False]}[pat]
            deep.append({"base": "Int" if d % 2 else "String", "mods": mods})
    dtypes, dout = os.path.join(wd, "deep.json"), os.path.join(wd, "deep.res.ndjson")
    json.dump({"types": deep, "values": []}, open(dtypes, "w"))
    vh(["typeall", dtypes, dout])
    j = tlc("JudgeTypes", "JudgeTypes.cfg", {"TYPES": dtypes, "OBS": dout}, wd, workers=8, timeout=1200); res.add_tlc(j)
    dvs = parse_verdicts(j["out"])
    if len([v for v in dvs if v[1] in ("done", "C17.panic")]) != len(deep): raise ToolError("JudgeTypes (deep types): missing verdicts\n" + j["out"][-2500:])
    for iid, cls, rest in dvs:
        if cls.startswith("C16.") or cls == "C17.panic":
            d = json.loads(tla_unquote(rest)) if rest.strip().startswith('"') else {"raw": rest}
            res.violation(f"deeply nested type does not survive {'rendering and parsing' if cls == 'C16.typetext' else 'a round trip'}: {json.dumps(d)[:200]}", text=json.dumps(d), tags={cls, "deep"}, replay={"case": d})
    ntypes += len(deep)
    # (b) values: the TLC-dumped universe through JSON, RON and the untagged form
    from props_pure import run_mc_values
    uni, _ = run_mc_values(res, wd)
    vals = uni["scalars"] + uni["lists1"] + uni["lists2"]
    # lists shorter and longer than the tuple / array targets (a prefix must never be taken for the whole), also nested
    i = G.I
    vals += [G.L([i(1)]), G.L([i(1), i(2)]), G.L([i(1), i(2), i(3)]), G.L([i(1), i(2), i(3), i(4)]), G.L([i(300), i(2), i(3)]), G.L([G.L([i(1), i(2)]), G.L([i(3), i(4), i(5)])]),
             G.L([G.L([i(1), i(2)]), G.L([i(3), i(4)])]), G.L([G.L([i(1)])]), G.L([G.NULL, i(2), i(3)]), G.L([G.S("a"), i(2), i(3)])]
    vin, vout = os.path.join(wd, "vals.ndjson"), os.path.join(wd, "vals.res.ndjson")
    write_ndjson(vin, vals); vh(["map", "valround", vin, vout])
    nontriv = 0
    for v, r in zip(vals, read_ndjson(vout)):
        if "panic" in r:
            res.violation(f"value round trip panicked on {G.pretty(v)}: {r['panic'][:200]}", text=r["panic"], tags={"value"}, replay={"value": v}); continue
        nontriv += 1
        for fmt in ("json", "ron"):
            if not (r[fmt + "Eq"] and r[fmt + "Same"]):
                res.violation(f"{fmt.upper()} round trip of value {G.pretty(v)} is not the identity", text=json.dumps(r), tags={"value", fmt}, replay={"value": v, "result": r})
        has_enum = '"enum"' in json.dumps(v)
        if not r["untaggedEq"]:
            res.violation(f"untagged JSON form of {G.pretty(v)} ({r['untagged']}) converts back to {G.pretty(r['untaggedBack']) if r['untaggedBack'].get('k') != 'error' else 'an error'}",
                          text=json.dumps(r), tags={"value", "untagged"} | ({"enum_value"} if has_enum else set()), replay={"value": v, "result": r})
    # (c) compiled queries of the semantic universe
    insts = universe.semantic_universe("quick" if tier == "quick" else "thorough", seed + 300)
    if tier == "quick": insts = universe.spread(insts, 1200)
    obs = observe(insts, wd, "irrt", seed)
    nq = 0
    for inst, o in zip(insts, obs):
        rt = o.get("irrt")
        if not rt: continue
        nq += 1
        if rt.get("t") != "ok":
            res.violation(f"compiled-query round trip panicked: {rt.get('err', '')[:200]}", text=rt.get("err", ""), tags={"ir"}, replay=props.replay_case(inst, o))
        elif not (rt["irJson"] and rt["irRon"] and rt["iqRon"] and rt["reindexed"]):
            res.violation(f"compiled query does not survive a round trip ({rt}) for {inst['text']!r}", text=json.dumps(rt), tags={"ir"}, replay=props.replay_case(inst, o))
        elif len(res.cov["samples"]) < 3:
            res.sample({"query": inst["text"], "ir_json_bytes": rt["bytes"]})
    res.cov["evaluations"] = ntypes + len(vals) + nq
    res.cov["distinct_nontrivial"] = ntypes + nontriv + len({inst["text"] for inst, o in zip(insts, obs) if o.get("irrt")})
    res.cov["rule"] = (f"{ntypes} types (TLC-dumped up to 3 list levels plus 50 types of depth 4..30; Display tokens = Types!Render, parse(Display) = identity, JSON and RON identity), {len(vals)} field values (TLC-dumped universe; JSON, RON, untagged JSON and back) and "
                       f"{nq} compiled queries of the semantic universe (IRQuery JSON/RON, IndexedQuery RON, re-indexing); distinct by value / type / query text; all are non-trivial inputs")
    res.notes["model_content"] = "thin: identity laws and the token grammar of types (TextLaws in MC_Types.tla)"
    return res

# ------------------------------------------------------------------ C18
def check_C18(tier, seed):
    res = Result("C18", tier, seed, "model_checking")
    wd = workdir("C18")
    from props_pure import run_mc_values
    uni, _ = run_mc_values(res, wd)
    vals = uni["scalars"] + uni["lists1"] + uni["lists2"]
    # lists shorter and longer than the tuple / array targets (a prefix must never be taken for the whole), also nested
    i = G.I
    vals += [G.L([i(1)]), G.L([i(1), i(2)]), G.L([i(1), i(2), i(3)]), G.L([i(1), i(2), i(3), i(4)]), G.L([i(300), i(2), i(3)]), G.L([G.L([i(1), i(2)]), G.L([i(3), i(4), i(5)])]),
             G.L([G.L([i(1), i(2)]), G.L([i(3), i(4)])]), G.L([G.L([i(1)])]), G.L([G.NULL, i(2), i(3)]), G.L([G.S("a"), i(2), i(3)])]
    vin, vout = os.path.join(wd, "dvals.json"), os.path.join(wd, "dec.ndjson")
    json.dump({"values": vals}, open(vin, "w"))
    vh(["decodeall", vin, vout])
    j = tlc("JudgeDecode", "JudgeDecode.cfg", {"OBS": vout}, wd, workers=8, timeout=1200)
    res.add_tlc(j)
    vs = parse_verdicts(j["out"])
    done = [v for v in vs if v[1] == "done"]
    if len(done) != len(vals): raise ToolError(f"JudgeDecode: {len(done)} verdicts for {len(vals)} values\n" + j["out"][-2500:])
    ntargets = int(done[0][2]) if done else 0
    for iid, cls, rest in vs:
        if cls == "done": continue
        d = json.loads(tla_unquote(rest))
        tags = {cls}
        if '"enum"' in json.dumps(d["v"]): tags.add("enum_value")
        if d["v"].get("k") == "int" and d["target"] in ("f32", "f64"): tags.add("int_into_float")
        res.violation(f"decoding {G.pretty(d['v'])} into {d['target']}: {cls[4:]} (got {json.dumps(d['got'])[:120]}, the property allows '{d['want']}')", text=json.dumps(d), tags=tags, replay={"case": d})
    res.cov["evaluations"] = len(vals) * ntargets
    res.cov["distinct_nontrivial"] = len(vals) * ntargets
    res.cov["exhaustive"] = True
    res.cov["rule"] = (f"{len(vals)} values of the TLC-dumped universe x {ntargets} target field types (i8..i64, u8..u64, f32, f64, bool, String, Option<T>, Vec<T>, nested Vec, 2- and 3-tuples, [T; 2], Vec and Option of tuples) decoded by the real TryIntoStruct; "
                       "TLC judges each outcome against Decode!Outcome (ok iff representable and identical, err otherwise, 'any' where the property is silent)")
    res.cov["samples"] = [{"value": G.pretty(vals[k]), "targets": ["i8", "u64", "f64", "Option<i64>", "Vec<i64>"]} for k in (14, 25, 60)]
    return res
