"""Properties decided on the semantic oracle with dedicated sub-universes: C22 (fold-count early termination),
C23 (metamorphic relations), C11 (compiled-query well-formedness), C12 (argument validation)."""
import copy, json, os
from vlib import *
import lib as G
import universe
import props

# ------------------------------------------------------------------ C22
def check_C22(tier, seed):
    import foldfam, props_interp as PI
    res = Result("C22", tier, seed, "model_checking")
    wd = workdir("C22")
    insts = foldfam.fold_instances(tier, seed)
    # plus the random universe restricted to queries with a fold-count filter
    extra = [i for i in universe.semantic_universe(tier, seed + 2200) if any("count" in n and n["count"]["filters"] for n in G.walk_scopes(i["q"]))]
    insts = universe.renumber(insts + extra)
    obs, verdicts = props.run_semantic(res, insts, "ir", wd, seed)
    props.count_universe(res, insts, obs, verdicts)
    bydecor = {}
    for inst, o in zip(insts, obs):
        v = verdicts.get(inst["id"], {})
        d = inst["cls"].get("decor", "random")
        if o["compile"]["t"] == "panic" or o.get("exec", {}).get("t") == "panic":
            res.violation(f"panic on a fold-count query: {(o['compile'].get('err') or o.get('exec', {}).get('err', ''))[:200]} for {inst['text']!r}", text="panic", tags=props.inst_tags(inst), replay=props.replay_case(inst, o)); continue
        if "C01.mismatch" in v:
            res.violation(f"rows differ from the fully-materialised semantics (decoration {d}, count filters {inst['cls'].get('ops')}, args {{{', '.join(k + '=' + G.pretty(x) for k, x in o.get('args', {}).items())}}}) for query {inst['text']!r}",
                          text="fold-early-termination", tags=set(props.inst_tags(inst)) | {"decor:" + d}, replay=props.replay_case(inst, o, expected_rows=json.loads(tla_unquote(v["C01.mismatch"]))))
        elif "C01.ok" in v:
            bydecor[d] = bydecor.get(d, 0) + 1
            if o["exec"]["rows"] and d != "random": res.sample(brief(inst, {"rows": len(o["exec"]["rows"]), "decoration": d}), cap=3)
    # model level: Interp's fold stage (with the early-termination actions enabled) yields the real rows, and Sem's bag, under every schedule
    small = [PI.interp_instance(i, o) for i, o in zip(insts, obs) if PI.usable(i, o, 8) and i["cls"].get("decor") and len(i["g"]["verts"]) <= 5]
    step = max(1, len(small) // (40 if tier == "quick" else 300))
    small = small[::step][: (40 if tier == "quick" else 300)]
    for k, x in enumerate(small): x["id"] = k + 1
    mc = PI.mc_explore(res, small, "MC_Interp_lazy", wd, "mc", timeout=(240 if tier == "quick" else 1800))
    for inv, x in mc["violated"]:
        res.drift.append(f"Interp violates {inv} on {x['text'][:100]!r}" if x else f"Interp violates {inv}")
    res.cov["rule"] += (" C22 sub-universe: gen/foldfam.py enumerates count-filter operator x argument {-1,0,1,2,3,u64::MAX} (and lists, and pairs of bounds) x 11 observation classes "
                        "(nothing, count output, outputs inside, nested fold outputs / count, count tag used in a parent filter / sibling fold / nested scope of a sibling fold / another count filter) x fold sizes 0..4, at the root and under an @optional; "
                        "Sem.tla never terminates a fold early, so bag equality with it is the property. Model level: Interp with FoldCollect's max/min stopping rules produces the same rows on a sample.")
    res.notes.update({"ok_by_decoration": bydecor, "mc_instances": len(small), "mc_states": mc["distinct"], "mc_complete": mc["complete"]})
    res.assumptions += ["Sem.tla's @fold (materialise everything, then filter on the count) states the language semantics"]
    return res
