"""Properties decided on the semantic oracle with dedicated sub-universes: C22 (fold-count early termination),
C23 (metamorphic relations), C11 (compiled-query well-formedness), C12 (argument validation)."""
import copy, json, os
from vlib import *
import lib as G
import universe
import props

# ------------------------------------------------------------------ C22
def check_C22(tier, seed):
    import foldfam, props_interp as PI
    res = Result("C22", tier, seed, "model_checking")
    wd = workdir("C22")
    insts = foldfam.fold_instances(tier, seed)
    # plus the random universe restricted to queries with a fold-count filter
    extra = [i for i in universe.semantic_universe(tier, seed + 2200) if any("count" in n and n["count"]["filters"] for n in G.walk_scopes(i["q"]))]
    insts = universe.renumber(insts + extra)
    obs, verdicts = props.run_semantic(res, insts, "ir", wd, seed)
    props.count_universe(res, insts, obs, verdicts)
    bydecor = {}
    for inst, o in zip(insts, obs):
        v = verdicts.get(inst["id"], {})
        d = inst["cls"].get("decor", "random")
        if o["compile"]["t"] == "panic" or o.get("exec", {}).get("t") == "panic":
            res.violation(f"panic on a fold-count query: {(o['compile'].get('err') or o.get('exec', {}).get('err', ''))[:200]} for {inst['text']!r}", text="panic", tags=props.inst_tags(inst), replay=props.replay_case(inst, o)); continue
        if "C01.mismatch" in v:
            res.violation(f"rows differ from the fully-materialised semantics (decoration {d}, count filters {inst['cls'].get('ops')}, args {{{', '.join(k + '=' + G.pretty(x) for k, x in o.get('args', {}).items())}}}) for query {inst['text']!r}",
                          text="fold-early-termination", tags=set(props.inst_tags(inst)) | {"decor:" + d}, replay=props.replay_case(inst, o, expected_rows=json.loads(tla_unquote(v["C01.mismatch"]))))
        elif "C01.ok" in v:
            bydecor[d] = bydecor.get(d, 0) + 1
            if o["exec"]["rows"] and d != "random": res.sample(brief(inst, {"rows": len(o["exec"]["rows"]), "decoration": d}), cap=3)
    # model level: Interp's fold stage (with the early-termination actions enabled) yields the real rows, and Sem's bag, under every schedule
    small = [PI.interp_instance(i, o) for i, o in zip(insts, obs) if PI.usable(i, o, 8) and i["cls"].get("decor") and len(i["g"]["verts"]) <= 5]
    step = max(1, len(small) // (40 if tier == "quick" else 300))
    small = small[::step][: (40 if tier == "quick" else 300)]
    for k, x in enumerate(small): x["id"] = k + 1
    mc = PI.mc_explore(res, small, "MC_Interp_lazy", wd, "mc", timeout=(240 if tier == "quick" else 1800))
    for inv, x in mc["violated"]:
        res.drift.append(f"Interp violates {inv} on {x['text'][:100]!r}" if x else f"Interp violates {inv}")
    res.cov["rule"] += (" C22 sub-universe: gen/foldfam.py enumerates count-filter operator x argument {-1,0,1,2,3,u64::MAX} (and lists, and pairs of bounds) x 11 observation classes "
                        "(nothing, count output, outputs inside, nested fold outputs / count, count tag used in a parent filter / sibling fold / nested scope of a sibling fold / another count filter) x fold sizes 0..4, at the root and under an @optional; "
                        "Sem.tla never terminates a fold early, so bag equality with it is the property. Model level: Interp with FoldCollect's max/min stopping rules produces the same rows on a sample.")
    res.notes.update({"ok_by_decoration": bydecor, "mc_instances": len(small), "mc_states": mc["distinct"], "mc_complete": mc["complete"]})
    res.assumptions += ["Sem.tla's @fold (materialise everything, then filter on the count) states the language semantics"]
    return res

# ------------------------------------------------------------------ C23
def check_C23(tier, seed):
    import meta
    res = Result("C23", tier, seed, "model_checking")
    wd = workdir("C23")
    base = universe.semantic_universe(tier, seed + 2300)
    base = base[: (250 if tier == "quick" else 5000)]
    cases = meta.meta_cases(base, seed)
    # one flat instance list for the engine
    flat = []
    for c in cases:
        c["idx"] = []
        for inst in c["insts"]:
            x = dict(inst); x["id"] = len(flat) + 1; flat.append(x); c["idx"].append(len(flat) - 1)
    obs = observe(flat, wd, "", seed)
    jcases = []; skipped = {}; bykind = {}
    for c in cases:
        os_ = [obs[k] for k in c["idx"]]
        bad = [o for o in os_ if o["compile"]["t"] != "ok" or o.get("exec", {}).get("t") != "ok"]
        panics = [o for o in os_ if o["compile"]["t"] == "panic" or o.get("exec", {}).get("t") == "panic"]
        if panics:
            o = panics[0]; inst = flat[o["id"] - 1]
            res.violation(f"panic on a transformed query ({c['kind']}): {(o['compile'].get('err') or o.get('exec', {}).get('err', ''))[:160]} for {inst['text']!r}", text="panic", tags=props.inst_tags(inst), replay=props.replay_case(inst, o)); continue
        if bad or any(len(o["exec"]["rows"]) > 40 for o in os_):
            k = "rejected_or_large:" + c["kind"]; skipped[k] = skipped.get(k, 0) + 1; continue
        jc = {"id": len(jcases) + 1, "rel": c["rel"], "kind": c["kind"], "ren": c["insts"][-1].get("ren", []),
              "insts": [{k: flat[j][k] for k in ("schema", "g", "q", "args")} for j in c["idx"]],
              "obs": [{"args": o["args"], "rows": o["exec"]["rows"]} for o in os_], "texts": [flat[j]["text"] for j in c["idx"]]}
        jcases.append(jc)
    nsh = max(1, min(4, len(jcases) // 800))
    import concurrent.futures as cf
    def one(s):
        p = os.path.join(wd, f"meta.{s}.ndjson"); write_ndjson(p, jcases[s::nsh])
        return tlc("JudgeMeta", "JudgeMeta.cfg", {"INST": p}, wd, workers=max(2, NCPU // nsh), timeout=3000)
    verd = {}
    with cf.ThreadPoolExecutor(nsh) as ex:
        for r in ex.map(one, range(nsh)):
            res.add_tlc(r)
            for iid, cls, rest in parse_verdicts(r["out"]): verd.setdefault(iid, set()).add(cls)
    missing = [c["id"] for c in jcases if len(verd.get(c["id"], ())) < 2]
    if missing: raise ToolError(f"JudgeMeta: no verdict for cases {missing[:8]}")
    nontrivial = 0
    for c in jcases:
        v = verd[c["id"]]
        bykind[c["kind"]] = bykind.get(c["kind"], 0) + 1
        differ = json.dumps(c["obs"][0]["rows"], sort_keys=True) != json.dumps(c["obs"][-1]["rows"], sort_keys=True)
        if differ: nontrivial += 1
        if "real.bad" in v:
            res.violation(f"metamorphic relation '{c['kind']}' ({c['rel']}) does not hold on the real engine: {c['texts'][0]!r} vs {c['texts'][-1]!r}", text="meta " + c["kind"],
                          replay={"relation": c["rel"], "kind": c["kind"], "instances": c["insts"], "texts": c["texts"], "rows": [o["rows"] for o in c["obs"]]})
        elif "sem.bad" in v:
            res.drift.append(f"relation '{c['kind']}' fails on Sem itself for {c['texts'][-1][:120]!r} (specification or transformation side condition)")
        elif differ and c["obs"][0]["rows"]: res.sample({"relation": c["kind"], "base": c["texts"][0], "transformed": c["texts"][-1], "rows": [len(o["rows"]) for o in c["obs"]]}, cap=4)
    res.cov["evaluations"] = len(jcases)
    res.cov["distinct_nontrivial"] = nontrivial
    res.cov["rule"] = ("gen/meta.py applies each applicable transformation (add a filter outside folds; deepen a recursion; make an edge @optional; edge parameter <-> filter; '=' <-> one_of [x]; filter / negated filter / no filter outside "
                       "optional and fold scopes; rename outputs and tags; reverse sibling properties / edges) to the instances of the semantic universe; TLC checks the predicted relation (sub-bag, super-bag, equal bag, equal after renaming, "
                       "partition) on Sem's rows and on the real engine's rows. evaluations = cases judged; distinct non-trivial = cases where the transformation actually changed the rows")
    res.notes.update({"cases_by_kind": bykind, "skipped": skipped})
    return res
