"""Properties decided on the semantic oracle with dedicated sub-universes: C22 (fold-count early termination),
C23 (metamorphic relations), C11 (compiled-query well-formedness), C12 (argument validation)."""
import copy, json, os
from vlib import *
import lib as G
import universe
import props

# ------------------------------------------------------------------ C22
def check_C22(tier, seed):
    import foldfam, props_interp as PI
    res = Result("C22", tier, seed, "model_checking")
    wd = workdir("C22")
    insts = foldfam.fold_instances(tier, seed)
    # plus the random universe restricted to queries with a fold-count filter
    extra = [i for i in universe.semantic_universe(tier, seed + 2200) if any("count" in n and n["count"]["filters"] for n in G.walk_scopes(i["q"]))]
    insts = universe.renumber(insts + extra)
    obs, verdicts = props.run_semantic(res, insts, "ir", wd, seed)
    props.count_universe(res, insts, obs, verdicts)
    bydecor = {}
    for inst, o in zip(insts, obs):
        v = verdicts.get(inst["id"], {})
        d = inst["cls"].get("decor", "random")
        if o["compile"]["t"] == "panic" or o.get("exec", {}).get("t") == "panic":
            res.violation(f"panic on a fold-count query: {(o['compile'].get('err') or o.get('exec', {}).get('err', ''))[:200]} for {inst['text']!r}", text="panic", tags=props.inst_tags(inst), replay=props.replay_case(inst, o)); continue
        if "C01.mismatch" in v:
            res.violation(f"rows differ from the fully-materialised semantics (decoration {d}, count filters {inst['cls'].get('ops')}, args {{{', '.join(k + '=' + G.pretty(x) for k, x in o.get('args', {}).items())}}}) for query {inst['text']!r}",
                          text="fold-early-termination", tags=set(props.inst_tags(inst)) | {"decor:" + d}, replay=props.replay_case(inst, o, expected_rows=json.loads(tla_unquote(v["C01.mismatch"]))))
        elif "C01.ok" in v:
            bydecor[d] = bydecor.get(d, 0) + 1
            if o["exec"]["rows"] and d != "random": res.sample(brief(inst, {"rows": len(o["exec"]["rows"]), "decoration": d}), cap=3)
    # model level: Interp's fold stage (with the early-termination actions enabled) yields the real rows, and Sem's bag, under every schedule
    small = [PI.interp_instance(i, o) for i, o in zip(insts, obs) if PI.usable(i, o, 8) and i["cls"].get("decor") and len(i["g"]["verts"]) <= 5]
    step = max(1, len(small) // (40 if tier == "quick" else 300))
    small = small[::step][: (40 if tier == "quick" else 300)]
    for k, x in enumerate(small): x["id"] = k + 1
    mc = PI.mc_explore(res, small, "MC_Interp_lazy", wd, "mc", timeout=(240 if tier == "quick" else 1800))
    for inv, x in mc["violated"]:
        res.drift.append(f"Interp violates {inv} on {x['text'][:100]!r}" if x else f"Interp violates {inv}")
    res.cov["rule"] += (" C22 sub-universe: gen/foldfam.py enumerates count-filter operator x argument {-1,0,1,2,3,u64::MAX} (and lists, and pairs of bounds) x 11 observation classes "
                        "(nothing, count output, outputs inside, nested fold outputs / count, count tag used in a parent filter / sibling fold / nested scope of a sibling fold / another count filter) x fold sizes 0..4, at the root and under an @optional; "
                        "Sem.tla never terminates a fold early, so bag equality with it is the property. Model level: Interp with FoldCollect's max/min stopping rules produces the same rows on a sample.")
    res.notes.update({"ok_by_decoration": bydecor, "mc_instances": len(small), "mc_states": mc["distinct"], "mc_complete": mc["complete"], "mc_actions_never_taken": [a for a, n in mc["actions"].items() if n == 0]})
    res.assumptions += ["Sem.tla's @fold (materialise everything, then filter on the count) states the language semantics"]
    return res

# ------------------------------------------------------------------ C23
def check_C23(tier, seed):
    import meta
    res = Result("C23", tier, seed, "model_checking")
    wd = workdir("C23")
    full = universe.semantic_universe(tier, seed + 2300)
    rnd = [i for i in full if i["cls"].get("family") == "random"]; fam = [i for i in full if i["cls"].get("family") != "random"]
    nb = 500 if tier == "quick" else 6000
    base = universe.spread(rnd, nb) + universe.spread(fam, nb // 2)
    cases = meta.meta_cases(base, seed, tier)
    # one flat instance list for the engine
    flat = []
    for c in cases:
        c["idx"] = []
        for inst in c["insts"]:
            x = dict(inst); x["id"] = len(flat) + 1; flat.append(x); c["idx"].append(len(flat) - 1)
    obs = observe(flat, wd, "", seed)
    jcases = []; skipped = {}; bykind = {}
    for c in cases:
        os_ = [obs[k] for k in c["idx"]]
        bad = [o for o in os_ if o["compile"]["t"] != "ok" or o.get("exec", {}).get("t") != "ok"]
        panics = [o for o in os_ if o["compile"]["t"] == "panic" or o.get("exec", {}).get("t") == "panic"]
        if panics:
            o = panics[0]; inst = flat[o["id"] - 1]
            res.violation(f"panic on a transformed query ({c['kind']}): {(o['compile'].get('err') or o.get('exec', {}).get('err', ''))[:160]} for {inst['text']!r}", text="panic", tags=props.inst_tags(inst), replay=props.replay_case(inst, o)); continue
        if bad or any(len(o["exec"]["rows"]) > 40 for o in os_):
            k = "rejected_or_large:" + c["kind"]; skipped[k] = skipped.get(k, 0) + 1; continue
        jc = {"id": len(jcases) + 1, "rel": c["rel"], "kind": c["kind"], "ren": c["insts"][-1].get("ren", []),
              "insts": [{k: flat[j][k] for k in ("schema", "g", "q", "args")} for j in c["idx"]],
              "obs": [{"args": o["args"], "rows": o["exec"]["rows"]} for o in os_], "texts": [flat[j]["text"] for j in c["idx"]]}
        jcases.append(jc)
    nsh = max(1, min(4, len(jcases) // 800))
    import concurrent.futures as cf
    def one(s):
        p = os.path.join(wd, f"meta.{s}.ndjson"); write_ndjson(p, jcases[s::nsh])
        return tlc("JudgeMeta", "JudgeMeta.cfg", {"INST": p}, wd, workers=max(2, NCPU // nsh), timeout=3000)
    verd = {}
    with cf.ThreadPoolExecutor(nsh) as ex:
        for r in ex.map(one, range(nsh)):
            res.add_tlc(r)
            for iid, cls, rest in parse_verdicts(r["out"]): verd.setdefault(iid, set()).add(cls)
    missing = [c["id"] for c in jcases if len(verd.get(c["id"], ())) < 2]
    if missing: raise ToolError(f"JudgeMeta: no verdict for cases {missing[:8]}")
    nontrivial = 0
    for c in jcases:
        v = verd[c["id"]]
        bykind[c["kind"]] = bykind.get(c["kind"], 0) + 1
        differ = json.dumps(c["obs"][0]["rows"], sort_keys=True) != json.dumps(c["obs"][-1]["rows"], sort_keys=True)
        if differ: nontrivial += 1
        if "real.bad" in v:
            res.violation(f"metamorphic relation '{c['kind']}' ({c['rel']}) does not hold on the real engine: {c['texts'][0]!r} vs {c['texts'][-1]!r}", text="meta " + c["kind"],
                          replay={"relation": c["rel"], "kind": c["kind"], "instances": c["insts"], "texts": c["texts"], "rows": [o["rows"] for o in c["obs"]]})
        elif "sem.bad" in v:
            res.drift.append(f"relation '{c['kind']}' fails on Sem itself for {c['texts'][-1][:120]!r} (specification or transformation side condition)")
        elif differ and c["obs"][0]["rows"]: res.sample({"relation": c["kind"], "base": c["texts"][0], "transformed": c["texts"][-1], "rows": [len(o["rows"]) for o in c["obs"]]}, cap=4)
    res.cov["evaluations"] = len(jcases)
    res.cov["distinct_nontrivial"] = nontrivial
    res.cov["rule"] = ("gen/meta.py applies each applicable transformation (add a filter outside folds; deepen a recursion; make an edge @optional; edge parameter <-> filter; '=' <-> one_of [x]; filter / negated filter / no filter outside "
                       "optional and fold scopes; rename outputs and tags; reverse sibling properties / edges) to the instances of the semantic universe; TLC checks the predicted relation (sub-bag, super-bag, equal bag, equal after renaming, "
                       "partition) on Sem's rows and on the real engine's rows. evaluations = cases judged; distinct non-trivial = cases where the transformation actually changed the rows")
    res.notes.update({"cases_by_kind": bykind, "skipped": skipped})
    return res

# ------------------------------------------------------------------ C11
def check_C11(tier, seed):
    from props_engine import judge
    res = Result("C11", tier, seed, "model_checking")
    wd = workdir("C11")
    insts = universe.semantic_universe(tier, seed + 1100)
    import systematic
    insts = universe.renumber(insts + systematic.sharedvar_instances(tier, seed) + universe.mutated_universe(tier, seed + 1100))     # what the frontend still accepts of these must be well-formed too
    obs = observe(insts, wd, "ir", seed)
    ji, jo = [], []; rejected = 0
    for inst, o in zip(insts, obs):
        if o["compile"]["t"] == "panic":
            res.violation(f"frontend panicked: {o['compile']['err'][:200]} for {inst['text']!r}", text=o["compile"]["err"], tags=props.inst_tags(inst), replay=props.replay_case(inst, o)); continue
        if o["compile"]["t"] != "ok": rejected += 1; continue
        ji.append({k: inst[k] for k in ("id", "schema", "q")}); jo.append({"id": inst["id"], "ir": o["ir"]})
    verdicts = judge(res, "JudgeIR", ji, jo, wd, "ir")
    byid = {i["id"]: i for i in insts}
    shapes = set(); nontrivial = 0; ndrift_lower = 0
    for x, o in zip(ji, jo):
        v = verdicts[x["id"]]; inst = byid[x["id"]]; ir = o["ir"]
        shape = json.dumps([[c["root"], c["parentFold"], [(it["kind"], it["from"], it["optional"], it["depth"], len(it["imported"]), len(it["post"])) for it in c["items"]],
                             [len(vx["filters"]) for vx in c["vertices"]]] for c in ir["comps"]])
        if shape not in shapes:
            shapes.add(shape)
            if len(ir["vids"]) >= 2: nontrivial += 1
        if "C11.bad" in v:
            broken = [c for c in json.loads(tla_unquote(v["C11.bad"])) if c]
            # the ninth clause (the whole compiled query = Lower.tla's image of the source) goes beyond the invariants the property lists:
            # a disagreement there alone is reported as model drift, it is a violation only together with a listed clause
            if all("Lower.tla" in c for c in broken):
                ndrift_lower += 1
                if ndrift_lower <= 5: res.drift.append(f"the compiled query differs from what Lower.tla derives from the source (no listed invariant broken): {inst['text'][:300]!r}")
                continue
            res.violation(f"compiled query breaks: {'; '.join(broken)} - for query {inst['text']!r}", text="ir " + "; ".join(broken), tags=props.inst_tags(inst), replay=props.replay_case(inst, None, ir=ir, broken=broken))
        elif len(ir["comps"]) >= 2 and any(it["imported"] for c in ir["comps"] for it in c["items"]):
            res.sample({"query": inst["text"], "components": [{"root": c["root"], "vertices": [vx["vid"] for vx in c["vertices"]], "edges": [(it["kind"], it["eid"], it["from"], it["to"]) for it in c["items"]],
                        "imported": [[(t["k"], t["vid"], t["field"], t["eid"]) for t in it["imported"]] for it in c["items"] if it["kind"] == "fold"]} for c in ir["comps"]]}, cap=3)
    res.cov["evaluations"] = len(ji)
    res.cov["distinct_nontrivial"] = nontrivial
    res.cov["traces_validated_against_impl"] = 0
    res.cov["rule"] = ("every query of the semantic universe (random + recursion / hint / fold-count families) that the real frontend accepts; TLC evaluates the clauses of JudgeIR.tla on the exported IR "
                       "(edge i -> vertex i+1; every vid/eid in exactly one component and numbered 1..n; folds precede their contents; edges go up; tags resolved before use; imported tags = exactly the outside tags used inside, as sets; "
                       "variable uses typed compatibly and variable types = the ones the source implies; shape = pre-order numbering of the source AST); a ninth clause compares the WHOLE exported IR with spec/Lower.tla's image of the source query "
                       "(vertices with types / coercions / filters and their operands, edges with filled-in parameters / optional / recursion depth and implicit coercion, folds with count filters / outputs / imported tags, outputs, variables) - a difference there alone is model drift. distinct non-trivial = distinct IR shapes (components, edge kinds, filter and import counts) with >= 2 vertices")
    res.notes.update({"rejected_by_frontend": rejected, "distinct_shapes": len(shapes)})
    return res

# ------------------------------------------------------------------ C12
def arg_values():
    big = G.U((1 << 64) - 1)
    return [G.NULL, G.I(0), G.I(-1), big, G.F2(3), G.S("a"), G.S(""), G.B(True), G.L([]), G.L([G.I(1), G.I(2)]), G.L([G.I(1), G.NULL]), G.L([G.NULL]), G.L([G.S("a")]),
            G.L([G.L([G.I(1)])]), G.L([G.L([G.I(1)]), G.NULL]), G.L([G.L([G.NULL])]), G.L([G.L([G.S("a"), G.NULL]), G.L([])]), G.L([G.I(1), G.S("a")]), G.L([G.F2(1)]), G.L([G.B(False)]), G.E("FOO"), G.L([G.E("A")])]

def check_C12(tier, seed):
    import random
    res = Result("C12", tier, seed, "model_checking")
    wd = workdir("C12")
    rng = random.Random(seed * 7 + 12)
    insts = universe.semantic_universe(tier, seed + 1200)
    # keep queries with variables; build argument maps: the valid one, each variable dropped, an extra name, each variable set to each universe value
    keep = [i for i in insts if i["args"]]
    # round-robin over the schemas (the universe lists VS1 first: the first 500 would contain no Float / Boolean / list-typed variable at all)
    by = {}
    for i in keep: by.setdefault(i["schema"]["name"], []).append(i)
    order = []
    while any(by.values()):
        for k in sorted(by):
            if by[k]: order.append(by[k].pop(0))
    keep = order[: (600 if tier == "quick" else 6000)]
    # one variable, two sites whose implied types differ in nullability (gen/systematic.sharedvar_instances); always all of them
    import systematic
    fam = systematic.sharedvar_instances(tier, seed)
    for k, i in enumerate(fam): i["id"] = 900001 + k
    keep = fam + keep
    res.notes["sharedvar_family_instances"] = len(fam)
    vals = arg_values()
    for inst in keep:
        base = [[k, v] for k, v in sorted(inst["args"].items())]
        maps = [base, base + [["zz_extra", G.I(1)]], []]
        for k in range(len(base)):
            maps.append(base[:k] + base[k + 1:])
            maps.append(base[:k] + base[k + 1:] + [["zz_other", G.S("x")]])
            for v in (vals if tier != "quick" else rng.sample(vals, 8) + [G.I(0), G.F2(3), G.S("a"), G.NULL]):     # every scalar kind is always tried against every variable
                maps.append(base[:k] + [[base[k][0], v]] + base[k + 1:])
        if len(base) >= 2:   # two bad values at once (MultipleErrors)
            maps.append([[base[0][0], G.L([G.L([G.NULL])])], [base[1][0], G.B(True)]] + base[2:])
        inst["argmaps"] = maps
    obs = observe(keep, wd, "ir,argcheck", seed)
    cases = []; owner = []
    for inst, o in zip(keep, obs):
        if o["compile"]["t"] != "ok" or "argcheck" not in o: continue
        for m, out in zip(inst["argmaps"], o["argcheck"]):
            if out["t"] == "panic":
                res.violation(f"argument validation panicked: {out['err'][:200]} for variables {o['ir']['vars']} and arguments {[(a, G.pretty(b)) for a, b in m]}", text=out["err"],
                              tags=props.inst_tags(inst), replay={"query": inst["text"], "arguments": m}); continue
            cases.append({"id": len(cases) + 1, "vars": o["ir"]["vars"], "given": m, "outcome": {k: out[k] for k in ("t", "missing", "unused", "badtype")}}); owner.append(inst)
    # "the type the query implies for that variable": the recorded variable types are the ones spec/Query.tla derives from the source query
    from props_engine import judge
    ok = [(i, o) for i, o in zip(keep, obs) if o["compile"]["t"] == "ok" and "ir" in o]
    vv = judge(res, "JudgeIR", [{k: i[k] for k in ("id", "schema", "q")} for i, _ in ok], [{"id": i["id"], "ir": o["ir"]} for i, o in ok], wd, "vars")
    shared = 0
    for inst, o in ok:
        uses = {}
        for c in o["ir"]["comps"]:
            for f in [f for vx in c["vertices"] for f in vx["filters"]] + [f for it in c["items"] for f in it["post"]]:
                if f["arg"]["k"] == "var": uses[f["arg"]["n"]] = uses.get(f["arg"]["n"], 0) + 1
        if any(n > 1 for n in uses.values()): shared += 1
        v = vv.get(inst["id"], {})
        if "C11.bad" in v:
            broken = [c for c in json.loads(tla_unquote(v["C11.bad"])) if "variable" in c]
            if broken:
                res.violation(f"the variable types recorded for the query {[(x[0], x[1]['text']) for x in o['ir']['vars']]} are not the ones the query implies, so argument validation judges values against the wrong type: {inst['text']!r}",
                              text="implied-variable-types", tags=props.inst_tags(inst), replay=props.replay_case(inst, None, ir_vars=o["ir"]["vars"]))
    res.notes["queries_with_a_variable_used_more_than_once"] = shared
    nsh = max(1, min(4, len(cases) // 4000))
    import concurrent.futures as cf
    def one(s):
        p = os.path.join(wd, f"args.{s}.ndjson"); write_ndjson(p, cases[s::nsh])
        return tlc("ArgCheck", "ArgCheck.cfg", {"INST": p}, wd, workers=max(2, NCPU // nsh), timeout=3000)
    verd = {}
    with cf.ThreadPoolExecutor(nsh) as ex:
        for r in ex.map(one, range(nsh)):
            res.add_tlc(r)
            for iid, cls, rest in parse_verdicts(r["out"]): verd[iid] = (cls, rest)
    missing = [c["id"] for c in cases if c["id"] not in verd]
    if missing: raise ToolError(f"ArgCheck: no verdict for cases {missing[:8]}")
    acc = rej = 0; kinds = set()
    for c, inst in zip(cases, owner):
        cls, rest = verd[c["id"]]
        if cls == "C12.bad":
            want = json.loads(tla_unquote(rest))
            res.violation(f"argument validation disagrees with its definition: variables {[(v[0], v[1]['text']) for v in c['vars']]}, given {[(a, G.pretty(b)) for a, b in c['given']]}: engine {c['outcome']}, specification {want}",
                          text="argcheck", tags=props.inst_tags(inst), replay={"query": inst["text"], "vars": c["vars"], "given": c["given"], "outcome": c["outcome"], "expected": want})
        elif cls == "C12.accept": acc += 1
        else:
            rej += 1; kinds.add((bool(c["outcome"]["missing"]), bool(c["outcome"]["unused"]), bool(c["outcome"]["badtype"])))
            if len(res.cov["samples"]) < 3 and c["outcome"]["badtype"]: res.sample({"vars": [(v[0], v[1]["text"]) for v in c["vars"]], "given": [(a, G.pretty(b)) for a, b in c["given"]], "engine": c["outcome"]})
    res.cov["evaluations"] = len(cases)
    res.cov["distinct_nontrivial"] = rej
    res.cov["rule"] = ("for every compiled query with variables in the universe: the valid argument map, the empty map, each variable dropped, an extra name, each variable replaced by each value of a 19-value universe (null, ints of both signs and beyond i64, float, strings, bool, "
                       "empty / int / null-containing / string / nested / mixed / float / bool lists, an enum value and a list of enums), and two bad values at once; the real InterpretedQuery::from_query_and_arguments outcome (accept, or the named missing / unused / ill-typed variables) "
                       "is judged by TLC against ArgCheck.tla (Types!Fits on the query's inferred variable types). distinct non-trivial = rejected maps")
    res.notes.update({"accepted": acc, "rejected": rej, "rejection_kinds(missing,unused,badtype)": sorted(map(list, kinds))})
    return res
