"""C24 (thread-safety), C26 (generated stubs compile), C27 (Python bindings)."""
import json, os, re, shutil, subprocess, time
from vlib import *
import lib as G
import universe
import props

# ------------------------------------------------------------------ C24
def check_C24(tier, seed):
    res = Result("C24", tier, seed, "exploration")
    wd = workdir("C24")
    # model: every interleaving of threads over once-cells gives the sequential results, cells initialised once and write-once
    r = tlc("MC_Threads", "Threads.cfg", {}, wd, workers=8, timeout=900)
    res.add_tlc(r)
    if not r["ok"]: raise ToolError("Threads.tla: a property fails on the model itself:\n" + r["out"][-2500:])
    insts = [i for i in universe.semantic_universe("quick", seed + 2400) if i["schema"]["name"] == "VS1"]
    nproc = 24 if tier == "quick" else 300
    per = 12
    import random
    rng = random.Random(seed)
    bad_total = []; nexec = 0; procs = []
    def launch(k):
        part = rng.sample(insts, per)
        ip, op = os.path.join(wd, f"t.{k}.ndjson"), os.path.join(wd, f"t.{k}.json")
        write_ndjson(ip, part)
        return subprocess.Popen([VH, "threads", ip, op, "8"], stderr=subprocess.PIPE, text=True), op, part
    k = 0; running = []
    while k < nproc or running:
        while k < nproc and len(running) < 4:
            running.append(launch(k)); k += 1
        p, op, part = running.pop(0)
        _, err = p.communicate(timeout=600)
        if p.returncode != 0:
            res.violation(f"a process sharing a schema and compiled queries across 8 threads crashed: {err[-300:]}", text=err[-500:], replay={"instances": [x["text"] for x in part]}); continue
        out = json.load(open(op)); nexec += out["executed"]
        for b in out["bad"]:
            res.violation(f"thread {b['thread']}: {b['what']} ({b.get('err', b.get('text', ''))[:200]})", text=b["what"], replay={"detail": b, "instances": [x["text"] for x in part]})
        if out["executed"] and len(res.cov["samples"]) < 3: res.sample({"process": op, "threads": out["threads"], "queries_compiled_and_executed_per_thread": out["instances"], "executed": out["executed"]})
    res.cov["evaluations"] = nproc * per * 8
    res.cov["distinct_nontrivial"] = nexec
    res.cov["rule"] = (f"{nproc} fresh processes; in each, 8 threads released by a barrier (so that every lazily initialised static is raced for) parse the schema, share the first published Arc<Schema>, compile {per} queries concurrently "
                       "against it, share the first published Arc<IndexedQuery> of each, and execute it; every thread's serialized IR and rows must equal the sequential ones computed afterwards. The harness only compiles if Schema, IndexedQuery, "
                       "IRQuery, Type and FieldValue are Send + Sync. Model: TLC checks Threads.tla (3 threads, 3 once-cells, 2 operations) - every interleaving yields the sequential results. distinct non-trivial = (process, query) pairs actually executed")
    res.assumptions += ["no schedule of the real threads is observable: this is final-state conformance only"]
    res.notes["model_states"] = r["distinct"]
    return res

def threads_build_failure(err):
    return "Send" in err or "Sync" in err or "cannot be shared between threads" in err or "cannot be sent between threads" in err
