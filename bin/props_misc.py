"""C24 (thread-safety), C26 (generated stubs compile), C27 (Python bindings)."""
import json, os, re, shutil, subprocess, time
from vlib import *
import lib as G
import universe
import props

# ------------------------------------------------------------------ C24
def check_C24(tier, seed):
    res = Result("C24", tier, seed, "exploration")
    wd = workdir("C24")
    # model: every interleaving of threads over once-cells gives the sequential results, cells initialised once and write-once
    r = tlc("MC_Threads", "Threads.cfg", {}, wd, workers=8, timeout=900)
    res.add_tlc(r)
    if not r["ok"]: raise ToolError("Threads.tla: a property fails on the model itself:\n" + r["out"][-2500:])
    insts = [i for i in universe.semantic_universe("quick", seed + 2400) if i["schema"]["name"] == "VS1"]
    # queries whose filters take their argument from a tag that differs from row to row (every string / membership / ordering operator):
    # anything the engine caches per argument value must not be shared between executions
    import foldfam, lib as GL
    sc1 = GL.VS1(); tg = foldfam.fold_graph(sc1, 5)
    tagged = []
    for op, pn in [("regex", "name"), ("not_regex", "name"), ("has_prefix", "name"), ("has_substring", "name"), ("=", "name"), ("<", "val"), ("one_of", None), ("contains", None)]:
        if op == "one_of": root, inner = GL.prop_node("tags", tags=["p"]), GL.prop_node("val", outputs=["v"], filters=[GL.FTag("one_of", "p")])
        elif op == "contains": root, inner = GL.prop_node("val", tags=["p"]), GL.prop_node("tags", outputs=["v"], filters=[GL.FTag("contains", "p")])
        else: root, inner = GL.prop_node(pn, tags=["p"]), GL.prop_node(pn, outputs=["v"], filters=[GL.FTag(op, "p")])
        q = GL.edge_node("Nodes", props=[GL.prop_node("id", outputs=["rid"]), root], edges=[GL.edge_node("next", "plain", props=[inner], edges=[GL.edge_node("next", "optional", props=[GL.prop_node("id", outputs=["d"])])])])
        tagged.append(GL.make_instance(0, sc1, tg, q, {}, cls={"family": "tagged_filter_race", "op": op}))
    nproc = 24 if tier == "quick" else 300
    per = 12
    import random
    rng = random.Random(seed)
    bad_total = []; nexec = 0; procs = []
    def launch(k):
        part = rng.sample(insts, per - 4) + rng.sample(tagged, 4)
        ip, op = os.path.join(wd, f"t.{k}.ndjson"), os.path.join(wd, f"t.{k}.json")
        write_ndjson(ip, part)
        return subprocess.Popen([VH, "threads", ip, op, "8"], stderr=subprocess.PIPE, text=True), op, part
    k = 0; running = []
    while k < nproc or running:
        while k < nproc and len(running) < 4:
            running.append(launch(k)); k += 1
        p, op, part = running.pop(0)
        _, err = p.communicate(timeout=600)
        if p.returncode != 0:
            res.violation(f"a process sharing a schema and compiled queries across 8 threads crashed: {err[-300:]}", text=err[-500:], replay={"instances": [x["text"] for x in part]}); continue
        out = json.load(open(op)); nexec += out["executed"]
        for b in out["bad"]:
            res.violation(f"thread {b['thread']}: {b['what']} ({b.get('err', b.get('text', ''))[:200]})", text=b["what"], replay={"detail": b, "instances": [x["text"] for x in part]})
        if out["executed"] and len(res.cov["samples"]) < 3: res.sample({"process": op, "threads": out["threads"], "queries_compiled_and_executed_per_thread": out["instances"], "executed": out["executed"]})
    res.cov["evaluations"] = nproc * per * 8
    res.cov["distinct_nontrivial"] = nexec
    res.cov["rule"] = (f"{nproc} fresh processes; in each, 8 threads released by a barrier (so that every lazily initialised static is raced for) parse the schema, share the first published Arc<Schema>, compile {per} queries concurrently "
                       "against it, share the first published Arc<IndexedQuery> of each, and execute it (each thread in its own rotation of the queries, then 6 more executions of every shared compiled query in scrambled order; 4 of the queries per process filter on a tag that differs from row to row); every thread's serialized IR and rows must equal the sequential ones computed afterwards. The harness only compiles if Schema, IndexedQuery, "
                       "IRQuery, Type and FieldValue are Send + Sync. Model: TLC checks Threads.tla (3 threads, 3 once-cells, 2 operations) - every interleaving yields the sequential results. distinct non-trivial = (process, query) pairs actually executed")
    res.assumptions += ["no schedule of the real threads is observable: this is final-state conformance only"]
    res.notes["model_states"] = r["distinct"]
    return res

def threads_build_failure(err):
    return "Send" in err or "Sync" in err or "cannot be shared between threads" in err or "cannot be sent between threads" in err

# ------------------------------------------------------------------ C26
def naming_schemas(tier):
    """(label, list of (type name, kind, implements, property names, edge (name, target)), entrypoints)"""
    S = []
    def sch(label, types, entries=("Things",)): S.append((label, types, list(entries)))
    base = lambda n="Thing", props=("id", "name"), edges=None: (n, props, (("peer", n),) if edges is None else edges)   # every type has at least one edge: its resolver calls the as_<variant>() accessor
    S.append(("feature_mix_parameters_of_every_type", "FEATURES", ["Things", "Other", "Empties"]))
    sch("plain", [base()])
    sch("consecutive_capitals_type", [base("HTTPServer")], ["Servers"])
    sch("two_capitals_type", [base("AB")])
    sch("digit_in_type", [base("Http2Server"), base("A1B")])
    sch("underscore_type", [base("Foo_Bar"), base("_Lead")])
    sch("case_only_type_collision", [base("Foo_Bar"), base("FooBar")])
    sch("case_only_field_collision", [base("Thing", props=("userName", "user_name"))])
    sch("case_only_edge_property_collision", [base("Thing", props=("owner",), edges=(("Owner", "Thing"),))])
    sch("keyword_fields", [base("Thing", props=("type", "fn", "self", "match", "async"), edges=(("impl", "Thing"), ("loop", "Thing")))])
    sch("keyword_types", [base("type"), base("match"), base("Self")], ["things"])
    sch("keyword_entrypoint", [base()], ["type", "fn", "Things"])
    sch("type_and_type_underscore", [base("Type"), base("Type_")])
    sch("entrypoints_case_collision", [base()], ["Foo", "foo"])
    sch("consecutive_capitals_fields", [base("Thing", props=("userID", "HTTPCode"), edges=(("toHTTP", "Thing"),))])
    sch("reserved_unescaped_field", [base("Thing", props=("abstract", "box", "yield", "macro"), edges=(("virtual", "Thing"), ("final", "Thing"), ("gen", "Thing")))])
    sch("reserved_unescaped_type", [base("virtual")], ["Things"])
    sch("lowercase_type", [base("thing"), base("other_thing")])
    sch("vertex_named_vertex", [base("Vertex"), base("Adapter")])
    sch("names_like_std", [base("Option"), base("Some"), base("Box"), base("Vec")])
    # edge PARAMETER names: they become bindings of the generated resolver functions
    sch("parameter_names_differing_by_case", [base("Thing", edges=(("peer", "Thing", "maxItems: Int, max_items: Int!, MaxItems: String"),))])
    sch("parameter_names_keywords", [base("Thing", edges=(("peer", "Thing", "type: Int, match: String, fn: [Int!], async: Boolean"), ("other", "Thing", "self: Int, Self: Int")))])
    sch("parameter_name_keyword_and_its_escape", [base("Thing", edges=(("peer", "Thing", "type: Int, type_: Int!"),))])
    sch("parameter_names_like_locals", [base("Thing", edges=(("peer", "Thing", "contexts: Int, adapter: String, parameters: Int, resolve_info: Int, edge_name: String"),))])
    if tier == "quick": S = [s for s in S if s[0] in ("plain", "consecutive_capitals_type", "case_only_type_collision", "keyword_fields", "entrypoints_case_collision", "digit_in_type", "type_and_type_underscore", "feature_mix_parameters_of_every_type",
                                                         "parameter_names_differing_by_case", "parameter_names_keywords", "parameter_names_like_locals")]
    return S

FEATURE_SDL = """schema { query: RootQ }
%s
type RootQ {
  Things(limit: Int = 3, name: String, tags: [String!], ratio: Float!, flags: [Boolean]): [Thing!]
  Other: Other!
  Empties: [Empty]
}
interface Named { name: String }
type Thing implements Named {
  id: Int!
  name: String
  scores: [Float]!
  grid: [[Int!]]
  flags: [Boolean!]
  labels: [String]
  comment(by_author: String, limit: Int!): [Other!]
  tagged(tags: [String!]!, any: Boolean = true): [Thing]
  near(radius: Float = 1.5, ids: [Int], deep: [[Int!]]): Thing
  plain: [Named!]!
}
type Other implements Named {
  name: String
  back(label: String! = "x"): Thing!
}
type Empty { self_(n: Int): Empty }
"""

def naming_sdl(types, entries):
    if types == "FEATURES":
        from lib import DIRECTIVES
        return FEATURE_SDL % DIRECTIVES
    from lib import DIRECTIVES
    out = ["schema { query: RootQ }", DIRECTIVES, "type RootQ {"]
    first = types[0][0]
    for k, e in enumerate(entries): out.append(f"  {e}" + ("(limit: Int = 3)" if k == 0 else "") + f": [{first}!]")
    out.append("}")
    for n, props, edges in types:
        out.append(f"type {n} {{")
        for k, p in enumerate(props): out.append(f"  {p}: " + ["Int!", "String", "[Float!]", "Boolean", "[String]!"][k % 5])
        for ed in edges: out.append(f"  {ed[0]}({ed[2] if len(ed) > 2 else 'min: Int'}): [{ed[1]}!]")
        out.append("}")
    return "\n".join(out) + "\n"

def check_C26(tier, seed):
    res = Result("C26", tier, seed, "exploration")
    wd = workdir("C26")
    schemas = naming_schemas(tier)
    scratch = f"/var/tmp/verif_stub_{os.getpid()}"
    shutil.rmtree(scratch, ignore_errors=True); os.makedirs(scratch)
    try:
        jobs = [{"id": k + 1, "sdl": naming_sdl(t, e), "dir": os.path.join(scratch, f"s{k + 1}")} for k, (l, t, e) in enumerate(schemas)]
        ip, op = os.path.join(wd, "in.ndjson"), os.path.join(wd, "out.ndjson")
        write_ndjson(ip, jobs); vh(["map", "stubgen", ip, op]); gen = read_ndjson(op)
        # the model's prediction
        feat = {"types": [{"name": list("Thing"), "fields": [list(x) for x in ("id", "name", "scores", "grid", "flags", "labels", "comment", "tagged", "near", "plain")], "edges": [list(x) for x in ("comment", "tagged", "near", "plain")]},
                          {"name": list("Other"), "fields": [list("name"), list("back")], "edges": [list("back")]}, {"name": list("Named"), "fields": [list("name")], "edges": []},
                          {"name": list("Empty"), "fields": [list("self_")], "edges": [list("self_")]}], "entries": [list("Things"), list("Other"), list("Empties")]}
        cases = [{"id": k + 1, "names": feat} if t == "FEATURES" else {"id": k + 1, "names": {"types": [{"name": list(n), "fields": [list(p) for p in props] + [list(ed[0]) for ed in edges], "edges": [list(ed[0]) for ed in edges]} for n, props, edges in t], "entries": [list(x) for x in e]}} for k, (l, t, e) in enumerate(schemas)]
        p = os.path.join(wd, "judge.ndjson"); write_ndjson(p, cases)
        r = tlc("JudgeStubgen", "JudgeStubgen.cfg", {"INST": p}, wd, workers=4, timeout=900)
        res.add_tlc(r)
        pred = {iid: (cls, json.loads(tla_unquote(rest))) for iid, cls, rest in parse_verdicts(r["out"])}
        if len(pred) != len(cases): raise ToolError("JudgeStubgen: missing verdicts\n" + r["out"][-2000:])
        shutil.copy("/repo/Cargo.lock", os.path.join(scratch, "Cargo.lock"))
        ncompiled = 0
        for job, g, (label, t, e) in zip(jobs, gen, schemas):
            cls, detail = pred[job["id"]]
            tags = {"predicted:" + cls} | {k for k, v in detail.items() if not v}
            if g["t"] == "panic" or g["t"] == "err":
                refusal = "cannot generate adapter for a schema containing both" in g["err"]
                if refusal:
                    if cls != "refused": res.drift.append(f"'{label}': the generator refused ({g['err'][:80]}) but Stubgen.tla predicts {cls}")
                    res.sample({"schema": label, "outcome": "refused by the generator (name collision)", "model": cls}, cap=6); continue
                res.violation(f"the stub generator failed on a valid schema ('{label}'): {g['err'][:200]}", text=g["err"], tags=tags, replay={"label": label, "sdl": job["sdl"]}); continue
            d = job["dir"]
            with open(os.path.join(d, "Cargo.toml"), "w") as f:
                f.write('[package]\nname = "stubtest"\npublish = false\nversion = "0.1.0"\nedition = "2021"\n\n[dependencies]\ntrustfall = { path = "/repo/trustfall" }\n\n[workspace]\n')
            os.makedirs(os.path.join(d, ".cargo"), exist_ok=True)
            with open(os.path.join(d, ".cargo", "config.toml"), "w") as f: f.write(f'[net]\noffline = true\n[build]\ntarget-dir = "{scratch}/target"\n')
            shutil.copy(os.path.join(scratch, "Cargo.lock"), os.path.join(d, "Cargo.lock"))
            with open(os.path.join(d, "src", "lib.rs"), "w") as f: f.write("mod adapter;\n")
            pr = subprocess.run(["cargo", "test", "--no-run", "--offline"], cwd=d, capture_output=True, text=True, env=dict(os.environ, CARGO_NET_OFFLINE="true"), timeout=1500)
            ncompiled += 1
            if pr.returncode != 0:
                errs = re.findall(r"^error(?:\[E\d+\])?: .*$", pr.stderr, re.M)
                if any("failed to select a version" in x or "no matching package" in x or "failed to load source" in x for x in errs + [pr.stderr[-400:]]) and not any("E0" in x for x in errs):
                    raise ToolError("cargo could not resolve dependencies offline for the stub crate:\n" + pr.stderr[-1500:])
                res.violation(f"the stub generated for valid schema '{label}' does not compile: {'; '.join(errs[:3])[:300]}", text="stub-compile " + " ".join(errs[:4]), tags=tags,
                              replay={"label": label, "sdl": job["sdl"], "errors": errs[:10]})
                if cls == "compiles": res.drift.append(f"'{label}': Stubgen.tla predicts a compiling stub")
            else:
                if cls != "compiles": res.drift.append(f"'{label}': compiles although Stubgen.tla predicts {cls} {detail}")
                res.sample({"schema": label, "outcome": "generated and compiled (cargo test --no-run)", "model": cls}, cap=6)
        res.cov["evaluations"] = len(schemas)
        res.cov["distinct_nontrivial"] = ncompiled
        res.cov["rule"] = ("naming-focused valid schemas (consecutive capitals, digits, underscores, names differing only by case or underscores, Rust keywords and reserved words as type / property / edge / entrypoint names, Type vs Type_, "
                           "std-like names); each is given to the real generate_rust_stub; a refusal for a predicted identifier collision is accepted; every generated stub is compiled offline with `cargo test --no-run` against /repo/trustfall in a scratch "
                           "crate outside /repo and /verif. Stubgen.tla predicts refusal / compile per case (mismatches are MODEL-DRIFT). distinct non-trivial = stubs compiled")
        res.assumptions += ["'is valid Rust' is decided by rustc, not by the model"]
    finally:
        shutil.rmtree(scratch, ignore_errors=True)
    return res

# ------------------------------------------------------------------ C27
def build_pytrustfall(wd):
    """cargo build -p pytrustfall (target dir inside /verif/harness/target, /repo untouched) and assemble an importable package directory"""
    tgt = os.path.join(ROOT, "harness", "target", "py")
    p = subprocess.run(["cargo", "build", "-p", "pytrustfall", "--offline", "--quiet"], cwd="/repo", env=dict(os.environ, CARGO_TARGET_DIR=tgt, CARGO_NET_OFFLINE="true"), capture_output=True, text=True)
    if p.returncode != 0: raise ToolError("pytrustfall does not build:\n" + p.stderr[-3000:])
    pkg = os.path.join(wd, "pkg"); shutil.rmtree(pkg, ignore_errors=True)
    shutil.copytree("/repo/pytrustfall/trustfall", os.path.join(pkg, "trustfall"))
    shutil.copy(os.path.join(tgt, "debug", "libtrustfall.so"), os.path.join(pkg, "trustfall", "trustfall.so"))
    return pkg

def abstract_obj(o):
    """python literal description -> PyValue.tla object"""
    k = o["kind"]
    if k == "int":
        n = int(o["v"]); r = "i64" if -(1 << 63) <= n < (1 << 63) else ("u64only" if (1 << 63) <= n < (1 << 64) else ("below_i64" if n < 0 else "above_u64"))
        return {"kind": "int", "range": r}
    if k == "float": return {"kind": "float", "finite": not isinstance(o["v"], str)}
    if k in ("list",): return {"kind": "list", "elems": [abstract_obj(x) for x in o["v"]]}
    return {"kind": k}

def value_cases():
    I = lambda n: {"kind": "int", "v": str(n)}
    scal = [{"kind": "none"}, {"kind": "bool", "v": True}, {"kind": "bool", "v": False}, I(0), I(-1), I(1), I(-(1 << 63)), I((1 << 63) - 1), I(1 << 63), I((1 << 64) - 1), I(1 << 64), I(-(1 << 63) - 1), I(10 ** 30),
            {"kind": "float", "v": 1.5}, {"kind": "float", "v": -0.5}, {"kind": "float", "v": 0.0}, {"kind": "float", "v": "nan"}, {"kind": "float", "v": "inf"}, {"kind": "float", "v": "-inf"},
            {"kind": "str", "v": ""}, {"kind": "str", "v": "abc"}, {"kind": "str", "v": "é中"}, {"kind": "tuple", "v": [I(1)]}, {"kind": "dict"}, {"kind": "bytes"}, {"kind": "floatlike"}, {"kind": "object"}]
    L = lambda *xs: {"kind": "list", "v": list(xs)}
    Bv = lambda b: {"kind": "bool", "v": b}
    lists = [L(Bv(True), Bv(False)), L(Bv(True)), L(Bv(False), {"kind": "none"}), L(L(Bv(True)), L(Bv(False), Bv(True))), L(), L({"kind": "none"}), L(I(1), I(2)), L(I(1), {"kind": "none"}), L(I(1), I(1 << 63)), L(I(1), {"kind": "str", "v": "a"}), L(I(1), {"kind": "bool", "v": True}), L(I(1), {"kind": "float", "v": 2.5}),
             L({"kind": "str", "v": "a"}, {"kind": "str", "v": "b"}), L({"kind": "float", "v": 1.5}, {"kind": "float", "v": "nan"}), L(I(1 << 64)), L(L(I(1)), L(I(2), {"kind": "none"})), L(L(), L()), L(L(I(1)), {"kind": "none"}),
             L(L(I(1)), I(2)), L({"kind": "object"}), L({"kind": "tuple", "v": [I(1)]})]
    out = []
    for o in scal + lists:
        op = "one_of" if False else "="
        out.append({"id": len(out) + 1, "obj": o, "op": op})
    return out

def check_C27(tier, seed):
    import props_engine
    res = Result("C27", tier, seed, "exploration")
    wd = workdir("C27")
    pkg = build_pytrustfall(wd)
    env = dict(os.environ, RUST_BACKTRACE="0")
    # (1) rows through the Python bindings + a Python mirror of GraphAdapter = rows of the Rust engine (sequence) = Sem (bag, judged by TLC)
    insts = universe.semantic_universe("quick", seed + 2700)
    n = 400 if tier == "quick" else 3000
    insts = universe.renumber(insts[::max(1, len(insts) // n)][:n])
    obs = observe(insts, wd, "", seed)
    ex = [(i, o) for i, o in zip(insts, obs) if o["compile"]["t"] == "ok" and o.get("exec", {}).get("t") == "ok" and len(o["exec"]["rows"]) <= 60]
    ip, op = os.path.join(wd, "py.in.ndjson"), os.path.join(wd, "py.out.ndjson")
    write_ndjson(ip, [dict(i, args=o["args"]) for i, o in ex])
    p = subprocess.run(["python3", os.path.join(ROOT, "bin", "py_c27.py"), "rows", pkg, ip, op], capture_output=True, text=True, env=env, timeout=3000)
    if p.returncode != 0: raise ToolError("py_c27.py rows failed:\n" + p.stderr[-2000:])
    pyout = read_ndjson(op)
    ji, jo = [], []; nontrivial = 0
    for (inst, o), po in zip(ex, pyout):
        if po["t"] != "ok":
            res.violation(f"the Python bindings raised {po['exc']}: {po['msg'][:160]} where the Rust engine returns {len(o['exec']['rows'])} rows, for query {inst['text']!r}", text=po["exc"] + " " + po["msg"], tags=props.inst_tags(inst), replay=props.replay_case(inst, o, python=po)); continue
        rust_rows = o["exec"]["rows"]
        same = json.dumps([[ [k, strip_rep(v)] for k, v in r] for r in rust_rows], sort_keys=True) == json.dumps([[[k, strip_rep(v)] for k, v in r] for r in po["rows"]], sort_keys=True)
        if not same:
            res.violation(f"rows through the Python bindings differ from the Rust engine's ({len(po['rows'])} vs {len(rust_rows)} rows) for query {inst['text']!r}", text="py-rows-differ", tags=props.inst_tags(inst),
                          replay=props.replay_case(inst, o, python_rows=po["rows"]))
        if rust_rows: nontrivial += 1
        ji.append(inst); jo.append({"id": inst["id"], "t": "ok", "args": o["args"], "rows": po["rows"], "declared": []})
    # TLC: Python rows = Sem (bag)
    pi, po_ = os.path.join(wd, "judge.inst.ndjson"), os.path.join(wd, "judge.obs.ndjson")
    write_ndjson(pi, ji); write_ndjson(po_, jo)
    r = tlc("JudgeSem", "JudgeSem.cfg", {"INST": pi, "OBS": po_}, wd, workers=NCPU, timeout=3000); res.add_tlc(r)
    for iid, cls, rest in parse_verdicts(r["out"]):
        if cls == "C01.mismatch":
            inst = next(i for i in ji if i["id"] == iid)
            res.violation(f"rows through the Python bindings differ from the declarative semantics for query {inst['text']!r}", text="py-sem-mismatch", tags=props.inst_tags(inst), replay=props.replay_case(inst, None))
    # (2) value conversion cases against PyValue.tla
    cases = value_cases()
    cp, co = os.path.join(wd, "values.in.json"), os.path.join(wd, "values.out.json")
    json.dump(cases, open(cp, "w"))
    p = subprocess.run(["python3", os.path.join(ROOT, "bin", "py_c27.py"), "values", pkg, cp, co], capture_output=True, text=True, env=env, timeout=1200)
    if p.returncode != 0: raise ToolError("py_c27.py values failed:\n" + p.stderr[-2000:])
    vout = json.load(open(co))
    jc = []
    for c, v in zip(cases, vout):
        argt = "ok" if v["arg"]["t"] == "ok" else ("valueerr" if v["arg"]["exc"] == "ValueError" else ("typeerr" if v["arg"]["exc"] == "QueryArgumentsError" else "other:" + v["arg"]["exc"]))
        jc.append({"id": c["id"], "obj": abstract_obj(c["obj"]), "prop": {"t": v["prop"]["t"], "backKind": v["prop"].get("back", {}).get("kind", "-")}, "arg": {"t": argt}})
    jp = os.path.join(wd, "values.judge.ndjson"); write_ndjson(jp, jc)
    r = tlc("MC_PyValue", "MC_PyValue.cfg", {"INST": jp}, wd, workers=4, timeout=900); res.add_tlc(r)
    verd = {iid: (cls, rest) for iid, cls, rest in parse_verdicts(r["out"])}
    if len(verd) != len(jc): raise ToolError("MC_PyValue: missing verdicts\n" + r["out"][-2500:])
    for c, v, j in zip(cases, vout, jc):
        cls, rest = verd[c["id"]]
        back_same = v["prop"]["t"] != "ok" or faithful(c["obj"], v["prop"]["back"])
        if cls == "C27.bad" or not back_same:
            res.violation(f"Python value {c['obj']} converts unfaithfully: as a property value -> {v['prop']}, as an argument -> {v['arg']}; the specification says {tla_unquote(rest)}", text="py-value " + json.dumps(c["obj"])[:100],
                          replay={"object": c["obj"], "observed": v, "expected": json.loads(tla_unquote(rest))})
        elif len(res.cov["samples"]) < 4 and c["obj"]["kind"] in ("int", "list"): res.sample({"python_value": c["obj"], "as_property": v["prop"], "as_argument": v["arg"]})
    res.cov["evaluations"] = len(ex) + len(cases)
    res.cov["distinct_nontrivial"] = nontrivial
    res.cov["rule"] = (f"(1) {len(ex)} executable instances of the semantic universe run through the freshly built Python bindings with a Python mirror of GraphAdapter: the row sequence must equal the Rust engine's and (TLC, JudgeSem) its bag the "
                       f"declarative semantics; (2) {len(cases)} Python values (None, bools, ints at every 64-bit boundary and beyond, finite / non-finite floats, unicode strings, homogeneous / heterogeneous / nested lists, tuple, dict, bytes, float-like, "
                       "arbitrary objects) sent as property values (Python -> engine -> Python, must come back equal) and as query arguments; accept / reject and the returned kind are judged by TLC against PyValue.tla. "
                       "distinct non-trivial = instances with at least one row")
    res.assumptions += ["CPython 3.11 of the sandbox; the deciding observations are CPython's"]
    return res

def strip_rep(v):
    if v["k"] == "int": return {"k": "int", "v": v["v"]}
    if v["k"] == "list": return {"k": "list", "v": [strip_rep(x) for x in v["v"]]}
    return v

def faithful(obj, back):
    """the value that came back equals the one sent (floatlike -> its float)"""
    k = obj["kind"]
    if k == "none": return back["kind"] == "none"
    if k == "bool": return back["kind"] == "bool" and back["v"] == obj["v"]
    if k == "int": return back["kind"] == "int" and back["v"] == obj["v"]
    if k == "float": return back["kind"] == "float" and float(back["v"]) == float(obj["v"])
    if k == "floatlike": return back["kind"] == "float" and float(back["v"]) == 2.5
    if k == "str": return back["kind"] == "str" and back["v"] == obj["v"]
    if k == "list": return back["kind"] == "list" and len(back["v"]) == len(obj["v"]) and all(faithful(a, b) for a, b in zip(obj["v"], back["v"]))
    return False
