#!/usr/bin/env python3
"""C27 driver (runs under the system python3 with the freshly built pytrustfall on sys.path):
   py_c27.py rows  <pkgdir> <instances.ndjson> <out.ndjson>    rows of each instance through the Python bindings + a Python mirror of GraphAdapter
   py_c27.py values <pkgdir> <cases.json> <out.json>            value conversion cases (arguments and property values, both directions)"""
import json, math, sys
pkg = sys.argv[2]; sys.path.insert(0, pkg)
from trustfall import Adapter, Schema, execute_query

OFF = 1 << 63
def unlimbs(v): return ((v[0] << 48) | (v[1] << 24) | v[2]) - OFF
def limbs(x): y = x + OFF; return [y >> 48, (y >> 24) & 0xFFFFFF, y & 0xFFFFFF]
def to_py(v):
    k = v["k"]
    if k == "null": return None
    if k == "int": return unlimbs(v["v"])
    if k == "float": return v["v"] / 2
    if k == "str": return "".join(v["v"])
    if k == "bool": return bool(v["v"])
    if k == "list": return [to_py(x) for x in v["v"]]
    raise ValueError(k)
def from_py(x):
    if x is None: return {"k": "null"}
    if isinstance(x, bool): return {"k": "bool", "v": x}
    if isinstance(x, int): return {"k": "int", "r": "i" if x < OFF else "u", "v": limbs(x)} if -OFF <= x < 2 * OFF else {"k": "other", "v": str(x)}
    if isinstance(x, float): return {"k": "float", "v": int(x * 2)} if math.isfinite(x) and (x * 2).is_integer() and abs(x) < 1e8 else {"k": "other", "v": repr(x)}
    if isinstance(x, str): return {"k": "str", "v": list(x)}
    if isinstance(x, list): return {"k": "list", "v": [from_py(y) for y in x]}
    return {"k": "other", "v": repr(x)}

class GraphAdapter(Adapter):
    """Python mirror of harness/src/graph.rs"""
    def __init__(self, inst):
        g = inst["g"]
        self.ty = {v["id"]: v["ty"] for v in g["verts"]}
        self.props = {v["id"]: {p: to_py(x) for p, x in v["props"].items()} for v in g["verts"]}
        self.adj = g["adj"]; self.entry = g["entry"]
        self.supers = {n: t["supers"] for n, t in inst["schema"]["types"].items()}
    def resolve_starting_vertices(self, edge_name, parameters, *a, **k):
        m = parameters.get("min")
        for i in self.entry.get(edge_name, []):
            if m is None or i >= m: yield i
    def resolve_property(self, contexts, type_name, property_name, *a, **k):
        for ctx in contexts:
            v = ctx.active_vertex
            yield ctx, (None if v is None else (self.ty[v] if property_name == "__typename" else self.props[v][property_name]))
    def resolve_neighbors(self, contexts, type_name, edge_name, parameters, *a, **k):
        m = parameters.get("min")
        for ctx in contexts:
            v = ctx.active_vertex
            if v is None: yield ctx, iter(()); continue
            ns = [t for f, t in self.adj.get(edge_name, []) if f == v]
            if m is not None: ns = [t for t in ns if isinstance(self.props[t].get("val"), int) and self.props[t]["val"] >= m]
            yield ctx, iter(ns)
    def resolve_coercion(self, contexts, type_name, coerce_to_type, *a, **k):
        for ctx in contexts:
            v = ctx.active_vertex
            yield ctx, (v is not None and (self.ty[v] == coerce_to_type or coerce_to_type in self.supers.get(self.ty[v], [])))

def do_rows(inp, outp):
    schemas = {}
    with open(outp, "w") as out:
        for line in open(inp):
            inst = json.loads(line)
            try:
                sc = schemas.get(inst["sdl"]) or schemas.setdefault(inst["sdl"], Schema(inst["sdl"]))
                args = {k: to_py(v) for k, v in inst["args"].items()}
                rows = list(execute_query(GraphAdapter(inst), sc, inst["text"], args))
                res = {"id": inst["id"], "t": "ok", "rows": [[[k, from_py(v)] for k, v in sorted(r.items())] for r in rows]}
            except BaseException as e:
                res = {"id": inst["id"], "t": "exc", "exc": type(e).__name__, "msg": str(e)[:300]}
            out.write(json.dumps(res) + "\n")

# ---- value conversion cases
class Floaty:
    def __float__(self): return 2.5
class Plain: pass
def case_object(c):
    k = c["kind"]
    if k == "none": return None
    if k == "bool": return c["v"]
    if k == "int": return int(c["v"])
    if k == "float": return {"nan": float("nan"), "inf": float("inf"), "-inf": float("-inf")}.get(c["v"], None) if isinstance(c["v"], str) else float(c["v"])
    if k == "str": return c["v"]
    if k == "list": return [case_object(x) for x in c["v"]]
    if k == "tuple": return tuple(case_object(x) for x in c["v"])
    if k == "dict": return {"a": 1}
    if k == "bytes": return b"ab"
    if k == "floatlike": return Floaty()
    if k == "object": return Plain()
    raise ValueError(k)
def describe(x):
    """python-side result: kind and a printable value (lists recursively)"""
    if x is None: return {"kind": "none"}
    if isinstance(x, bool): return {"kind": "bool", "v": x}
    if isinstance(x, int): return {"kind": "int", "v": str(x)}
    if isinstance(x, float): return {"kind": "float", "v": repr(x)}
    if isinstance(x, str): return {"kind": "str", "v": x}
    if isinstance(x, list): return {"kind": "list", "v": [describe(y) for y in x]}
    return {"kind": "other", "v": repr(x)}

SDL = """schema { query: RootQ }
directive @filter(op: String!, value: [String!]) repeatable on FIELD | INLINE_FRAGMENT
directive @tag(name: String) repeatable on FIELD
directive @output(name: String) repeatable on FIELD
directive @optional on FIELD
directive @recurse(depth: Int!) on FIELD
directive @fold on FIELD
directive @transform(op: String!) repeatable on FIELD
type RootQ { Box(x: Int, s: String, f: Float, b: Boolean, l: [Int], ls: [String], ll: [[Int]]): [Item!]! }
type Item { i: Int s: String f: Float b: Boolean l: [Int] ls: [String] ll: [[Int]] anyval: Int }
"""
class EchoAdapter(Adapter):
    """One vertex; `anyval` returns the case object (Python -> engine -> Python); starting-vertex parameters are echoed into the vertex"""
    def __init__(self, obj): self.obj = obj; self.params = None
    def resolve_starting_vertices(self, edge_name, parameters, *a, **k):
        self.params = dict(parameters); yield 1
    def resolve_property(self, contexts, type_name, property_name, *a, **k):
        for ctx in contexts:
            yield ctx, (self.obj if property_name == "anyval" else None)
    def resolve_neighbors(self, contexts, *a, **k):
        for ctx in contexts: yield ctx, iter(())
    def resolve_coercion(self, contexts, *a, **k):
        for ctx in contexts: yield ctx, False

def do_values(inp, outp):
    cases = json.load(open(inp)); sc = Schema(SDL); out = []
    for c in cases:
        obj = case_object(c["obj"]); r = {"id": c["id"]}
        # (a) as a property value: Python -> engine -> Python
        try:
            rows = list(execute_query(EchoAdapter(obj), sc, '{ Box { anyval @output(name: "v") } }', {}))
            r["prop"] = {"t": "ok", "back": describe(rows[0]["v"])}
        except BaseException as e: r["prop"] = {"t": "exc", "exc": type(e).__name__, "msg": str(e)[:200]}
        # (b) as a query argument compared with itself through a filter on the echoed property (engine-side equality)
        try:
            rows = list(execute_query(EchoAdapter(obj), sc, '{ Box { anyval @output(name: "v") @filter(op: "%s", value: ["$a"]) } }' % c["op"], {"a": obj}))
            r["arg"] = {"t": "ok", "rows": len(rows)}
        except BaseException as e: r["arg"] = {"t": "exc", "exc": type(e).__name__, "msg": str(e)[:200]}
        out.append(r)
    json.dump(out, open(outp, "w"))

if __name__ == "__main__":
    {"rows": do_rows, "values": do_values}[sys.argv[1]](sys.argv[3], sys.argv[4])
